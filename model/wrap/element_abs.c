#include "hash_abs.h"
#include "element.c"
