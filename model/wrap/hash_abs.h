/* Scenario obligations replace the bit-mixing hash of src/hashtable.h by a cheap deterministic one (low bits of
 * the key's string-hash). Justification: C17 proves the table an exact finite map for EVERY hash function
 * (homes are arbitrary solver variables there) and C17.hash_range covers the real functions' range; with the
 * real multiply-and-shift hash CBMC's constant propagation is lost and every lookup forks (DESIGN.md 2.2). */
#include <stdint.h>
#define hs_hash32 real_hs_hash32
#include "hashtable.h"
#undef hs_hash32
#ifdef VERIF_HASH_CONST
/* every key of this unit's tables has the same home bucket: all entries collide (C03.*_colliding_ids) */
static inline uint32_t hs_hash32(uint32_t key, unsigned int order) { (void)key; return (uint32_t)VERIF_HASH_CONST & ((1u << order) - 1u); }
#else
static inline uint32_t hs_hash32(uint32_t key, unsigned int order) { return key & ((1u << order) - 1u); }
#endif

/* hashtable.h clears slots and values with memset(); CBMC's memset on a part of a heap array leaves a byte-level
 * update that is never folded back into fields, so every later lookup forks. Same effect, typed: */
#include <string.h>
#define memset(p, c, n) ((void)(*(p) = (__typeof__(*(p))){0}))

/* hashtable.h marks free slots of string tables with the key (const char *)HASHTABLE_INVALIDENTRY = (char *)-1.
 * CBMC cannot decide during symbolic execution whether the address of an object equals the integer address
 * -1, so every key comparison forks and nothing constant-folds. In scenario obligations the free-slot key is
 * NULL instead (comparisons with NULL fold). Because the same macro is also the int result of get/remove, the
 * result codes are renumbered consistently in the three units that see them (table.c, router.c, element.c):
 * INVALIDENTRY 0, SUCCESS 1 (FULL -1, KEYINVAL -2 unchanged). The code compares results only against these
 * macros. The real encoding is what C17 checks. */
#undef HASHTABLE_INVALIDENTRY
#define HASHTABLE_INVALIDENTRY 0
#undef HASHTABLE_SUCCESS
#define HASHTABLE_SUCCESS 1
