#include "hash_abs.h"
#include "table.c"
