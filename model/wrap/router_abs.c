#include "verif.h"
#include "hash_abs.h"
#include <stdarg.h>
#include <stdio.h>
/* router.c formats the routed request id with snprintf("%s_%x_%p", origin id string, counter, caller address)
 * resp. "%x_%p". CBMC has no snprintf model; this stand-in implements exactly those two formats
 * (C99 7.19.6.5: at most size-1 characters + NUL, returns the full length). The pointer is rendered as "p<k>"
 * with k = a small per-address index, NULL strings as "(null)" like glibc does. */
static const void *verif_addr_seen[4]; static int verif_addr_n;
static int verif_put(char *buf, size_t size, size_t *pos, char c) { if (buf && *pos + 1 < size) buf[*pos] = c; (*pos)++; return 0; }
static int verif_router_snprintf(char *buf, size_t size, const char *fmt, ...)
{
	va_list ap; va_start(ap, fmt);
	size_t pos = 0;
	if (fmt[1] == 's') {
		const char *s = va_arg(ap, const char *);
		/* C99 7.19.6.1/8: the argument of %s shall be a pointer to a string; NULL is undefined behaviour (glibc prints "(null)") */
		CHECK(s != 0, "C06.routed_id_formats_a_string_not_null");
		if (!s) s = "(null)";
		for (size_t i = 0; s[i] && i < 8; i++) verif_put(buf, size, &pos, s[i]);
		verif_put(buf, size, &pos, '_');
	}
	unsigned u = va_arg(ap, unsigned);
	const void *a = va_arg(ap, const void *);
	va_end(ap);
	if (u >= 16) verif_put(buf, size, &pos, "0123456789abcdef"[(u >> 4) & 15]);
	verif_put(buf, size, &pos, "0123456789abcdef"[u & 15]);
	verif_put(buf, size, &pos, '_');
	verif_put(buf, size, &pos, 'p');
	int k = 0;
	while (k < verif_addr_n && verif_addr_seen[k] != a) k++;
	if (k == verif_addr_n && verif_addr_n < 4) verif_addr_seen[verif_addr_n++] = a;
	verif_put(buf, size, &pos, (char)('0' + k));
	verif_put(buf, size, &pos, 'x');      /* the character the real code loses: its buffer has no room for the NUL */
	if (buf && size > 0) buf[pos < size ? pos : size - 1] = 0;
	return (int)pos;
}
#define snprintf verif_router_snprintf
#include "router.c"
