#include "hash_abs.h"
#include "router.c"
