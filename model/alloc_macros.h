/* -include'd into the repo units of scenario obligations: keeps the malloc() call (and its sizeof expression)
 * at the call site so that CBMC gives every heap object its real type (an allocation routed through a
 * function parameter becomes an untyped byte array and nothing constant-folds; DESIGN.md 2.4). Accounting and
 * failure injection happen in verif_track(). */
#ifndef VERIF_ALLOC_MACROS_H
#define VERIF_ALLOC_MACROS_H
#include <stdlib.h>
#include "alloc.h"
void *verif_track(void *p);
void verif_untrack_free(void *p);
#define cjet_malloc(sz) verif_track(malloc(sz))
#define cjet_calloc(n, sz) verif_track(calloc((n), (sz)))
#define cjet_free(p) verif_untrack_free(p)
#endif
