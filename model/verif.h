/*
 * verif.h - glue shared by every harness.
 *
 * Three build modes of the SAME harness source:
 *   (default, goto-cc)      proof build for CBMC
 *   -DVERIF_RECORD (goto-cc) as above, every nondeterministic choice is also
 *                           logged into verif_nd_log[] so that the counterexample
 *                           trace yields the choice sequence
 *   -DVERIF_REPLAY (gcc)    native build: choices are read back from a replay
 *                           file, __CPROVER_assume/assert become run-time checks
 */
#ifndef VERIF_H
#define VERIF_H

#include <stdbool.h>
#include <stddef.h>
#include <stdint.h>

#define VERIF_ND_MAX 96

#ifdef VERIF_REPLAY
/* ---------------------------------------------------------------- native */
#include <stdio.h>
#include <stdlib.h>
#include <string.h>
extern long verif_replay_vals[VERIF_ND_MAX];
extern double verif_replay_dvals[VERIF_ND_MAX];
extern unsigned verif_replay_n, verif_replay_dn, verif_replay_have, verif_replay_dhave;
extern const char *verif_replay_target;
void verif_replay_fail(const char *label);
static inline long nd(void)
{
	if (verif_replay_n >= verif_replay_have) { verif_replay_n++; return 0; }
	return verif_replay_vals[verif_replay_n++];
}
static inline double nd_double(void)
{
	if (verif_replay_dn >= verif_replay_dhave) { verif_replay_dn++; return 0.0; }
	return verif_replay_dvals[verif_replay_dn++];
}
#define __CPROVER_assume(c) do { if (!(c)) { printf("REPLAY-DIVERGED assume at %s:%d\n", __FILE__, __LINE__); fflush(stdout); exit(2); } } while (0)
#define __CPROVER_assert(c, l) do { if (!(c)) verif_replay_fail(l); } while (0)
#define __CPROVER_r_ok(p, n) 1
#define __CPROVER_w_ok(p, n) 1
#define VERIF_NATIVE 1
#else
/* ------------------------------------------------------------------ CBMC */
long nondet_long(void);
double nondet_double(void);
#ifdef VERIF_RECORD
extern long verif_nd_log[VERIF_ND_MAX];
extern double verif_nd_dlog[VERIF_ND_MAX];
extern unsigned verif_nd_n, verif_nd_dn;
/* the value used by the program is read back from the log, so that formula slicing keeps the log write of
   every choice the failing assertion depends on */
static inline long nd(void)
{
	unsigned i = verif_nd_n++;
	if (i < VERIF_ND_MAX) { verif_nd_log[i] = nondet_long(); return verif_nd_log[i]; }
	return nondet_long();
}
static inline double nd_double(void)
{
	unsigned i = verif_nd_dn++;
	if (i < VERIF_ND_MAX) { verif_nd_dlog[i] = nondet_double(); return verif_nd_dlog[i]; }
	return nondet_double();
}
#else
static inline long nd(void) { return nondet_long(); }
static inline double nd_double(void) { return nondet_double(); }
#endif
#endif

/* typed conveniences; every symbolic choice in every harness and stub goes through nd() */
#ifndef VERIF_REPLAY
#pragma CPROVER check push
#pragma CPROVER check disable "conversion"
#endif
static inline int nd_int(void) { return (int)nd(); }
static inline unsigned nd_uint(void) { return (unsigned)nd(); }
static inline uint8_t nd_u8(void) { return (uint8_t)nd(); }
static inline uint16_t nd_u16(void) { return (uint16_t)nd(); }
static inline uint32_t nd_u32(void) { return (uint32_t)nd(); }
static inline uint64_t nd_u64(void) { return (uint64_t)nd(); }
static inline size_t nd_size(void) { return (size_t)nd(); }
static inline bool nd_bool(void) { return (nd() & 1) != 0; }
#ifndef VERIF_REPLAY
#pragma CPROVER check pop
#endif
/* value in [lo, hi] */
static inline long nd_range(long lo, long hi) { long v = nd(); __CPROVER_assume(v >= lo && v <= hi); return v; }

/* labelled assertion; labels start with the property id ("C10.refusal_is_clean") */
#define CHECK(c, label) __CPROVER_assert((c), label)
/* reachability witness: an assertion that MUST be reported as failing */
#define REACH(name) __CPROVER_assert(0, "REACH." name)
/* end-of-harness vacuity witness */
#define WITNESS_END() __CPROVER_assert(0, "REACH.end")

#endif
