/* storage for the recorded nondeterministic choices (VERIF_RECORD builds only) */
#include "verif.h"
#ifdef VERIF_RECORD
long verif_nd_log[VERIF_ND_MAX];
double verif_nd_dlog[VERIF_ND_MAX];
unsigned verif_nd_n, verif_nd_dn;
#endif
