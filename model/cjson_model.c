/* Bounded model of the third-party JSON library (src/json/cJSON.c) for scenario obligations.
 * Same header, same struct, same ownership rules as the real library (DESIGN.md 1.3, 2.4):
 *  - one heap object per node and per string (so CBMC keeps pointers constant-folded),
 *  - every node and every string is one allocation drawn from the same failure-injection counter as
 *    cjet_malloc (the real library allocates through the cjet_malloc hooks, one block per node/string),
 *  - cJSON_GetObjectItem is case-insensitive like the real one, duplicate keys keep the first match,
 *  - no recursion: trees are at most MODEL_DEPTH deep (asserted),
 *  - printing does not render text: it returns a 2-byte cjet_malloc'ed string and remembers the tree in
 *    model_last_printed so that the transport stub can look at what is being sent;
 *  - parsing is not modelled (obligations build request trees directly). */
#include "verif.h"
#include <stdlib.h>
#include <string.h>
#include "json/cJSON.h"

extern long verif_live_blocks;
int verif_alloc_should_fail(void);
void *cjet_malloc(size_t);

long model_live_nodes;             /* JSON nodes alive */
long model_live_strings;           /* JSON strings (keys and values) alive */
const cJSON *model_last_printed;

static cJSON *new_item(int type)
{
	if (verif_alloc_should_fail()) return 0;
	cJSON *c = malloc(sizeof(cJSON));
	__CPROVER_assume(c != 0);
	verif_live_blocks++; model_live_nodes++;
	c->next = c->prev = c->child = 0; c->type = type; c->valuestring = 0; c->valueint = 0; c->valuedouble = 0; c->string = 0;
	return c;
}
static char *dupstr(const char *s)
{
	if (verif_alloc_should_fail()) return 0;
	size_t n = strlen(s) + 1;
	char *d = malloc(n);
	__CPROVER_assume(d != 0);
	verif_live_blocks++; model_live_strings++;
	for (size_t i = 0; i < n; i++) d[i] = s[i];
	return d;
}
static void free_str(char *s) { if (s) { verif_live_blocks--; model_live_strings--; free(s); } }
static void free_node(cJSON *c)
{
	if (!(c->type & cJSON_IsReference)) free_str(c->valuestring);
	if (!(c->type & cJSON_StringIsConst)) free_str(c->string);
	verif_live_blocks--; model_live_nodes--;
	free(c);
}

void cJSON_InitHooks(cJSON_Hooks *h) { (void)h; }
cJSON *cJSON_CreateObject(void) { return new_item(cJSON_Object); }
cJSON *cJSON_CreateArray(void) { return new_item(cJSON_Array); }
cJSON *cJSON_CreateTrue(void) { return new_item(cJSON_True); }
cJSON *cJSON_CreateFalse(void) { return new_item(cJSON_False); }
cJSON *cJSON_CreateNull(void) { return new_item(cJSON_NULL); }
cJSON *cJSON_CreateNumber(double d)
{
	cJSON *c = new_item(cJSON_Number);
	if (c) {
		c->valuedouble = d;
		/* like the real library: saturating conversion */
		if (d >= 2147483647.0) c->valueint = 2147483647;
		else if (d <= -2147483648.0) c->valueint = (-2147483647 - 1);
		else c->valueint = (int)d;
	}
	return c;
}
cJSON *cJSON_CreateString(const char *s)
{
	cJSON *c = new_item(cJSON_String);
	if (c) { c->valuestring = dupstr(s); if (!c->valuestring) { free_node(c); return 0; } }
	return c;
}

#define MODEL_DEPTH 5
void cJSON_Delete(cJSON *c)
{
	while (c) {
		cJSON *n = c->next;
		for (cJSON *c1 = c->child; c1;) { cJSON *n1 = c1->next;
			for (cJSON *c2 = c1->child; c2;) { cJSON *n2 = c2->next;
				for (cJSON *c3 = c2->child; c3;) { cJSON *n3 = c3->next;
					for (cJSON *c4 = c3->child; c4;) { cJSON *n4 = c4->next;
						__CPROVER_assert(c4->child == 0, "MODEL.json_depth_bound");
						free_node(c4); c4 = n4; }
					free_node(c3); c3 = n3; }
				free_node(c2); c2 = n2; }
			free_node(c1); c1 = n1; }
		free_node(c); c = n;
	}
}
static void append(cJSON *parent, cJSON *item)
{
	cJSON *c = parent->child;
	if (!c) { parent->child = item; item->prev = item; }
	else { cJSON *last = c->prev; last->next = item; item->prev = last; c->prev = item; }
	item->next = 0;
}
cJSON_bool cJSON_AddItemToArray(cJSON *a, cJSON *i) { if (!a || !i || a == i) return 0; append(a, i); return 1; }
cJSON_bool cJSON_AddItemToObject(cJSON *o, const char *k, cJSON *i)
{
	if (!o || !k || !i || o == i) return 0;
	char *kk = dupstr(k);
	if (!kk) return 0;
	if (!(i->type & cJSON_StringIsConst)) free_str(i->string);
	i->string = kk;
	i->type &= ~cJSON_StringIsConst;
	append(o, i);
	return 1;
}
cJSON *cJSON_AddTrueToObject(cJSON *o, const char *k)
{
	cJSON *t = cJSON_CreateTrue();
	if (t && cJSON_AddItemToObject(o, k, t)) return t;
	if (t) cJSON_Delete(t);
	return 0;
}
static int ci_eq(const char *a, const char *b)
{
	for (;; a++, b++) {
		char x = *a, y = *b;
		if (x >= 'A' && x <= 'Z') x += 32;
		if (y >= 'A' && y <= 'Z') y += 32;
		if (x != y) return 0;
		if (!x) return 1;
	}
}
cJSON *cJSON_GetObjectItem(const cJSON *o, const char *k)
{
	if (!o || !k) return 0;
	for (cJSON *c = o->child; c; c = c->next) if (c->string && ci_eq(c->string, k)) return c;
	return 0;
}
int cJSON_GetArraySize(const cJSON *a) { int n = 0; if (!a) return 0; for (cJSON *c = a->child; c; c = c->next) n++; return n; }
cJSON *cJSON_GetArrayItem(const cJSON *a, int i) { if (!a || i < 0) return 0; cJSON *c = a->child; while (c && i > 0) { c = c->next; i--; } return c; }

static cJSON *dup1(const cJSON *s)
{
	cJSON *d = new_item(s->type & ~cJSON_IsReference);
	if (!d) return 0;
	d->valueint = s->valueint; d->valuedouble = s->valuedouble;
	if (s->valuestring) { d->valuestring = dupstr(s->valuestring); if (!d->valuestring) { free_node(d); return 0; } }
	if (s->string) { d->string = dupstr(s->string); if (!d->string) { free_node(d); return 0; } d->type &= ~cJSON_StringIsConst; }
	return d;
}
cJSON *cJSON_Duplicate(const cJSON *s, cJSON_bool rec)
{
	if (!s) return 0;
	cJSON *d = dup1(s);
	if (!d || !rec) return d;
	for (cJSON *c1 = s->child; c1; c1 = c1->next) {
		cJSON *d1 = dup1(c1); if (!d1) { cJSON_Delete(d); return 0; } append(d, d1);
		for (cJSON *c2 = c1->child; c2; c2 = c2->next) {
			cJSON *d2 = dup1(c2); if (!d2) { cJSON_Delete(d); return 0; } append(d1, d2);
			for (cJSON *c3 = c2->child; c3; c3 = c3->next) {
				cJSON *d3 = dup1(c3); if (!d3) { cJSON_Delete(d); return 0; } append(d2, d3);
				__CPROVER_assert(c3->child == 0, "MODEL.json_depth_bound");
			}
		}
	}
	return d;
}
char *cJSON_PrintUnformatted(const cJSON *c)
{
	char *r = cjet_malloc(2);
	if (!r) return 0;
	r[0] = 'J'; r[1] = 0;
	model_last_printed = c;
	return r;
}
char *cJSON_Print(const cJSON *c) { return cJSON_PrintUnformatted(c); }
cJSON_bool cJSON_ReplaceItemInObject(cJSON *o, const char *k, cJSON *n)
{
	if (!o || !k || !n) return 0;
	cJSON *old = cJSON_GetObjectItem(o, k);
	if (!old) return 0;
	char *kk = dupstr(k);
	if (!kk) return 0;
	if (!(n->type & cJSON_StringIsConst)) free_str(n->string);
	n->string = kk;
	n->next = old->next; n->prev = old->prev;
	if (n->next) n->next->prev = n;
	if (o->child == old) { if (n->prev == old) n->prev = n; o->child = n; }
	else { if (n->prev) n->prev->next = n; if (!n->next) o->child->prev = n; }
	old->next = old->prev = 0;
	cJSON_Delete(old);
	return 1;
}
/* parsing is not modelled: obligations that need a parsed document install it here */
cJSON *model_parse_result;
cJSON *cJSON_ParseWithOpts(const char *v, const char **e, cJSON_bool r) { (void)v; (void)r; if (e) *e = v; cJSON *x = model_parse_result; model_parse_result = 0; return x; }
cJSON *cJSON_ParseWithLengthOpts(const char *v, size_t n, const char **e, cJSON_bool r) { (void)n; return cJSON_ParseWithOpts(v, e, r); }
cJSON *cJSON_ParseWithLength(const char *v, size_t n) { (void)n; return cJSON_ParseWithOpts(v, 0, 0); }
cJSON *cJSON_Parse(const char *v) { return cJSON_ParseWithOpts(v, 0, 0); }
