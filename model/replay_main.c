/* native replay driver: ./replay <values-file> <target-label>
 * values-file: lines "i <long>" (integer choices, in order) and "d <double-hex>" */
#define VERIF_REPLAY 1
#include "verif.h"

long verif_replay_vals[VERIF_ND_MAX];
double verif_replay_dvals[VERIF_ND_MAX];
unsigned verif_replay_n, verif_replay_dn, verif_replay_have, verif_replay_dhave;
const char *verif_replay_target = "";
static int other_failures;

void verif_replay_fail(const char *label)
{
	if (strncmp(label, "REACH.", 6) == 0) return;
	printf("REPLAY-FAIL %s\n", label);
	fflush(stdout);
	if (strcmp(label, verif_replay_target) == 0) exit(1);
	other_failures++;
}

#ifndef VERIF_ENTRY
#define VERIF_ENTRY harness
#endif
void VERIF_ENTRY(void);

int main(int argc, char **argv)
{
	if (argc < 3) { fprintf(stderr, "usage: replay <values> <label>\n"); return 3; }
	FILE *f = fopen(argv[1], "r");
	if (!f) { perror("values"); return 3; }
	char kind; char buf[128];
	while (fscanf(f, " %c %127s", &kind, buf) == 2) {
		if (kind == 'i' && verif_replay_have < VERIF_ND_MAX) verif_replay_vals[verif_replay_have++] = strtol(buf, 0, 0);
		else if (kind == 'd' && verif_replay_dhave < VERIF_ND_MAX) verif_replay_dvals[verif_replay_dhave++] = strtod(buf, 0);
	}
	fclose(f);
	verif_replay_target = argv[2];
	VERIF_ENTRY();
	printf("REPLAY-END other_failures=%d\n", other_failures);
	return 0;
}
