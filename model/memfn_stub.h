/* byte-loop replacements for memcpy/memmove with symbolic lengths (CBMC's built-ins produce huge formulas there) */
#include <stddef.h>
#include <stdint.h>
static inline void *verif_memcpy(void *d, const void *s, size_t n){ unsigned char *dd=d; const unsigned char *ss=s; for (size_t i=0;i<n;i++) dd[i]=ss[i]; return d; }
static inline void *verif_memmove(void *d, const void *s, size_t n){ unsigned char *dd=d; const unsigned char *ss=s; if ((uintptr_t)dd<=(uintptr_t)ss) { for (size_t i=0;i<n;i++) dd[i]=ss[i]; } else { for (size_t i=n;i>0;i--) dd[i-1]=ss[i-1]; } return d; }
