/* Typed allocator stub for scenario obligations (DESIGN.md 2.4): cjet_malloc -> malloc with a ghost live-block
 * counter and optional "k-th allocation fails" injection shared with the cJSON model. The real alloc.c
 * (accounting, cap) is verified on its own in C07.alloc_cap_*. */
#include "verif.h"
#include <stdlib.h>
#include "alloc.h"

long verif_live_blocks;            /* blocks handed out and not yet freed (daemon + JSON library) */
long verif_alloc_calls;            /* allocation attempts so far */
long verif_fail_at = -1;           /* index of the allocation attempt that fails; -1 = none */
int verif_alloc_failed;            /* set once the injected failure happened */

int verif_alloc_should_fail(void)
{
	long me = verif_alloc_calls++;
	if (me == verif_fail_at) { verif_alloc_failed = 1; return 1; }
	return 0;
}

/* used through model/alloc_macros.h: the allocation itself stays at the call site */
void *verif_track(void *p)
{
	__CPROVER_assume(p != 0);
	if (verif_alloc_should_fail()) { free(p); return 0; }
	verif_live_blocks++;
	return p;
}
void verif_untrack_free(void *p)
{
	verif_live_blocks--;
	free(p);
}

void *cjet_malloc(size_t size)
{
	if (verif_alloc_should_fail()) return 0;
	void *p = malloc(size);
	__CPROVER_assume(p != 0);
	verif_live_blocks++;
	return p;
}
void *cjet_calloc(size_t n, size_t size)
{
	if (verif_alloc_should_fail()) return 0;
	void *p = calloc(n, size);
	__CPROVER_assume(p != 0);
	verif_live_blocks++;
	return p;
}
void cjet_free(void *p)
{
	verif_live_blocks--;
	free(p);
}
size_t cjet_get_alloc_size(void) { return (size_t)verif_live_blocks; }
