/* Reference implementations ("C" locale) of the libc string functions CBMC has no model for; linked into
 * scenario obligations so that matcher verdicts are decided instead of being nondeterministic. */
#include <stddef.h>
static int v_lower(int c) { return (c >= 'A' && c <= 'Z') ? c + 32 : c; }
int strcasecmp(const char *a, const char *b)
{
	for (size_t i = 0;; i++) { int x = v_lower((unsigned char)a[i]), y = v_lower((unsigned char)b[i]); if (x != y) return x < y ? -1 : 1; if (!x) return 0; }
}
int strncasecmp(const char *a, const char *b, size_t n)
{
	for (size_t i = 0; i < n; i++) { int x = v_lower((unsigned char)a[i]), y = v_lower((unsigned char)b[i]); if (x != y) return x < y ? -1 : 1; if (!x) return 0; }
	return 0;
}
static int v_prefix(const char *h, const char *n, int ci)
{
	for (size_t i = 0; n[i]; i++) { int x = (unsigned char)h[i], y = (unsigned char)n[i]; if (ci) { x = v_lower(x); y = v_lower(y); } if (x != y) return 0; }
	return 1;
}
char *strstr(const char *h, const char *n) { for (size_t i = 0;; i++) { if (v_prefix(h + i, n, 0)) return (char *)(h + i); if (!h[i]) return 0; } }
char *strcasestr(const char *h, const char *n) { for (size_t i = 0;; i++) { if (v_prefix(h + i, n, 1)) return (char *)(h + i); if (!h[i]) return 0; } }
/* memchr: reference loop (CBMC ships no body for it: a body-less call returns an arbitrary pointer and both outcomes are explored) */
void *memchr(const void *s, int c, size_t n)
{
	const unsigned char *p = s;
	for (size_t i = 0; i < n; i++) if (p[i] == (unsigned char)c) return (void *)(p + i);
	return 0;
}
