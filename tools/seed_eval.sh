#!/bin/bash
# tools/seed_eval.sh <patch.diff> <property>... : apply a seeded change to /repo, run the quick checks, undo it
P=$1; shift
cd /repo && git apply --check "$P" || { echo "patch does not apply"; exit 3; }
git -C /repo apply "$P"
for prop in "$@"; do
  ( cd /verif && ./run.py --property $prop --tier quick 2>&1 | grep -E "^VIOLATION|^BROKEN|^NOT-DISCH|^property" | cut -c1-260 )
done
git -C /repo checkout -- . ; git -C /repo status --short | grep -v _build
