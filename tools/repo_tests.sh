#!/bin/bash
# usage: repo_tests.sh <source-tree> [build-dir]   - configure, build and run the repository's own suite on a tree
# (used to validate "fix:" commits and seeded changes; the build dir is removed afterwards unless given)
set -u
SRC=${1:-/repo}
BUILD=${2:-$(mktemp -d /tmp/cjet-build-XXXXXX)}
KEEP=${2:+1}
( cmake -G Ninja -S "$SRC" -B "$BUILD" -DCMAKE_BUILD_TYPE=${BT:-RelWithDebInfo} > "$BUILD.cfg.log" 2>&1 && cmake --build "$BUILD" -j16 > "$BUILD.build.log" 2>&1 ) || { echo "BUILD-FAILED (see $BUILD.build.log)"; tail -30 "$BUILD.build.log"; exit 3; }
ctest --test-dir "$BUILD" -j8 --timeout 900 --output-junit "$BUILD/junit.xml" > "$BUILD.ctest.log" 2>&1
rc=$?
python3 - "$BUILD/junit.xml" <<'PY'
import sys, xml.etree.ElementTree as ET
t = ET.parse(sys.argv[1]).getroot()
tot = fail = 0
for tc in t.iter('testcase'):
    tot += 1
    if tc.find('failure') is not None or tc.get('status') == 'fail':
        fail += 1
        print("FAILED-TEST", tc.get('name'))
print("ctest executables: %d, failed: %d" % (tot, fail))
PY
grep -h "tests passed\|tests failed" "$BUILD.ctest.log"
[ -z "$KEEP" ] && rm -rf "$BUILD" "$BUILD.cfg.log" "$BUILD.build.log" "$BUILD.ctest.log"
exit $rc
