#!/bin/bash
# tools/try.sh <obligation>...  : run obligations in parallel (development), print one-line summaries
cd /verif
for o in "$@"; do
 ( VERIF_DEV_TIMEOUT=${VERIF_DEV_TIMEOUT:-150} ./run.py --obligation $o > /tmp/try.$o.out 2>&1; python3 - $o <<'PY'
import sys,json,re
o=sys.argv[1]; t=open('/tmp/try.%s.out'%o).read()
try:
  i=t.index('{'); d,_=json.JSONDecoder().raw_decode(t[i:])
  fails=[k for k,v in d['labels'].items() if v!='SUCCESS']
  print(o, d['verdict'], 'labels=%d'%len(d['labels']), 'FAIL=%s'%fails, 'auto_failed=%s'%list(d['auto_failed'].keys()), 'vac=%s'%d.get('vacuous'), 'unw=%s'%d.get('unwind_failed'), 'notes=%s'%str(d['notes'])[:600], 'wall=%s rss=%s vars=%s'%(d.get('cbmc',{}).get('wall_s'),d.get('cbmc',{}).get('rss_mb'),d.get('cbmc',{}).get('vars')))
  for m in re.finditer(r'--- counterexample for (.*?): replayed=(\S+) ints=(.*?) dbls', t): print('   cex', m.group(1), 'replayed=',m.group(2), m.group(3)[:200])
except Exception as e: print(o, 'PARSE', e, t[-1500:])
PY
 ) &
done
wait
