#!/bin/bash
# tools/confirm_seed.sh <worktree> <out-subdir>  - re-run a sub-agent's claim in its scratch worktree:
# demonstration on the clean tree (must exit 0), with the patch (must exit non-zero), repository suite with the patch.
WT=$1; D=$WT/out/$2
cd $WT || exit 3
git checkout -q -- . ; git status --short | grep -v '^??' && { echo "tree not clean"; exit 3; }
( cd $D && bash ./demo.sh $WT ) > /tmp/confirm.clean.log 2>&1; echo "demo clean rc=$?"
git apply $D/patch.diff || { echo "patch does not apply"; exit 3; }
( cd $D && bash ./demo.sh $WT ) > /tmp/confirm.patched.log 2>&1; echo "demo patched rc=$?"
/verif/tools/repo_tests.sh $WT
git checkout -q -- .
