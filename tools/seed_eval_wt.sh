#!/bin/bash
# tools/seed_eval_wt.sh <patch.diff> <property>... : like seed_eval.sh, but the change is applied to a scratch worktree of
# /repo (never /repo itself) and the property checks run against it (VERIF_REPO); evidence goes to a scratch directory.
P=$(readlink -f "$1"); shift
WT=$(mktemp -d /tmp/seedwt-XXXXXX); rmdir $WT
git -C /repo worktree add -q --detach $WT HEAD || exit 3
( cd $WT && git apply "$P" ) || { echo "patch does not apply"; git -C /repo worktree remove --force $WT; exit 3; }
EV=$(mktemp -d /tmp/seedev-XXXXXX)
for prop in "$@"; do
  ( cd /verif && VERIF_REPO=$WT VERIF_EVIDENCE_DIR=$EV ./run.py --property $prop --tier ${TIER:-quick} 2>&1 | grep -E "^VIOLATION|^BROKEN|^NOT-DISCH|^property" | cut -c1-260 )
done
git -C /repo worktree remove --force $WT; rm -rf $EV
