#!/bin/bash
# tools/seed_try.sh <patch.diff> <obligation>... : development aid - apply a seeded change to a scratch worktree of /repo
# (never to /repo itself), run single obligations against it via VERIF_REPO, remove the worktree. Writes no evidence.
P=$(readlink -f "$1"); shift
WT=$(mktemp -d /tmp/seedwt-XXXXXX); rmdir $WT
git -C /repo worktree add -q --detach $WT HEAD || exit 3
( cd $WT && git apply "$P" ) || { echo "patch does not apply"; git -C /repo worktree remove --force $WT; exit 3; }
VERIF_REPO=$WT VERIF_DEV_TIMEOUT=${VERIF_DEV_TIMEOUT:-600} /verif/tools/try.sh "$@"
git -C /repo worktree remove --force $WT
