#!/usr/bin/env python3
"""Regenerate /verif/MANIFEST.json from obligations.py (PROPERTY_NOTES + OBLIGATIONS)."""
import json, os, sys
ROOT = os.path.dirname(os.path.dirname(os.path.abspath(__file__)))
sys.path.insert(0, ROOT)
import obligations as ob

props = [json.loads(l)["id"] for l in open(os.path.join(ROOT, "properties.jsonl"))]
checks, na = [], []
for p in props:
    note = ob.PROPERTY_NOTES.get(p, {})
    mine = [o for o in ob.OBLIGATIONS if p in o["props"]]
    if not mine or note.get("na_reason"):
        na.append({"property_id": p, "reason": note.get("na_reason", "no obligation built yet for this property")})
        continue
    nq = len([o for o in mine if o.get("tier", "quick") == "quick"])
    checks.append({
        "property_id": p,
        "quick_cmd": "./run.py --property %s --tier quick" % p,
        "thorough_cmd": "./run.py --property %s --tier thorough" % p,
        "evidence_file": "evidence/%s.json" % p,
        "replay_cmd_template": "./run.py --replay {path}",
        "engine": "cbmc",
        "level_claimed": {
            "category": "model_checking",
            "text": note.get("level_text", "bounded symbolic model checking (CBMC) of the real functions the property is anchored in; "
                                            "%d quick / %d total obligations" % (nq, len(mine))),
            "design_ref": "DESIGN.md section 4, " + p,
        },
        "level_note": (note.get("composition", "") + " OUTSIDE THE CLAIM: " + note.get("outside", "")).strip(),
        "technique": note.get("technique", "CBMC 6.11 bounded symbolic execution of the real C functions (goto-cc build of /repo/src), SAT-decided assertions with unwinding assertions and reachability witnesses; counterexamples replayed natively"),
    })
man = {
    "version": 1,
    "setup_cmd": "true",
    "hooks": {
        "guard": "CJET_VERIF",
        "enable": "checks compile /repo/src with goto-cc -DCJET_VERIF=1; no source hook is needed (static functions are reached by #include of the real .c file), so the guard currently guards nothing",
        "baseline_off_cmd": "/verif/tools/repo_tests.sh /repo",
        "source_commits": [],
        "add_only": True,
    },
    "engines": [{"name": "cbmc", "path": "run.py", "serves_properties": [c["property_id"] for c in checks],
                 "kind_free_text": "obligation runner: regenerates config headers and goto binaries from /repo's working tree, runs cbmc per obligation in parallel, checks reachability witnesses, replays counterexamples natively (gcc+ASan/UBSan), writes evidence"}],
    "checks": checks,
    "not_applicable": na,
    "notes": "All verdicts are bounded (see evidence coverage.samples[].bounds/unwind). Known defects of the pinned tree are in known_findings.json; repaired ones are 'fix:' commits in /repo.",
}
json.dump(man, open(os.path.join(ROOT, "MANIFEST.json"), "w"), indent=1)
print("checks:", len(checks), "not_applicable:", len(na))
