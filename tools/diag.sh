#!/bin/bash
# tools/diag.sh <obligation> [seconds] : run symex verbosely for a while and summarise the loop sequence
# (finds the first place where constant propagation is lost)
O=$1; T=${2:-60}; W=$(mktemp -d /tmp/diag-XXXX)
cd /verif && python3 - "$O" "$W" <<'PY'
import sys,os; sys.path.insert(0,'/verif')
import run, obligations
ob=dict([o for o in obligations.OBLIGATIONS if o['id']==sys.argv[1]][0])
w=sys.argv[2]
run.gen_config(w, ob.get('config'))
gb=run.build_goto(ob,w)
open(w+'/cmd.txt','w').write(" ".join(run.cbmc_cmd(ob,gb)))
PY
CMD=$(cat $W/cmd.txt | sed 's/--json-ui --verbosity 8/--verbosity 9/')
PATH=/verif/tools/shim:$PATH timeout $T $CMD > $W/out.txt 2>&1
echo "lines: $(wc -l < $W/out.txt)"
grep "Unwinding loop" $W/out.txt | awk '{print $3}' | sort | uniq -c | sort -rn | head -8
echo "--- sequence (collapsed), last 60 runs:"
grep "Unwinding loop" $W/out.txt | awk '{print $3}' | awk '{k=$1; if (k!=prev){ if (prev!="") printf "%s x%d; ", prev, c; c=0; prev=k} c++} END{print prev, c}' | tr ';' '\n' | ${DIAG_SEL:-tail -60} | tr '\n' ';' | fold -w 200
echo; grep -v "nwinding" $W/out.txt | grep -E "aborting|VCC|variables|VERIFICATION" | tail -5 | cut -c1-200
rm -rf $W
