#!/usr/bin/env python3
"""Runner for the CBMC obligations of /verif (see DESIGN.md).

  ./run.py --property C10 --tier quick        the registered check
  ./run.py --obligation C10.writev_step       one obligation (development)
  ./run.py --replay replays/<file>.json       native replay of a stored counterexample
  ./run.py --record-finding <obl> <label>     (development) store the replay of a known finding
  ./run.py --list

Exit codes: 0 property held on everything explored (KNOWN-FINDING lines may be printed),
            1 a violation that is not a listed finding (VIOLATION line printed),
            2 the check itself is broken / inconclusive (vacuous harness, build failure,
              counterexample that does not reproduce, nothing discharged).
"""
import argparse
import json
import os
import re
import resource
import shutil
import subprocess
import sys
import tempfile
import time
from concurrent.futures import ThreadPoolExecutor

ROOT = os.path.dirname(os.path.abspath(__file__))
REPO = os.environ.get("VERIF_REPO", "/repo")
SRC = os.path.join(REPO, "src")
sys.path.insert(0, ROOT)

DEFAULT_CONFIG = {
    "CONFIG_JET_PORT": "11122",
    "CONFIG_JETWS_PORT": "11123",
    "CONFIG_LISTEN_BACKLOG": "40",
    "CONFIG_MAX_MESSAGE_SIZE": "4",
    "CONFIG_MAX_WRITE_BUFFER_SIZE": "4",
    "CONFIG_ELEMENT_TABLE_ORDER": "2",
    "CONFIG_ROUTING_TABLE_ORDER": "2",
    "CONFIG_INITIAL_FETCH_TABLE_SIZE": "2",
    "CONFIG_ROUTED_MESSAGES_TIMEOUT": "5.0",
    "CONFIG_MAX_NUMBERS_OF_MATCHERS_IN_FETCH": "3",
    "CONFIG_ALLOW_ADD_ONLY_FROM_LOCALHOST": "false",
    "CONFIG_MAX_HEAPSIZE_IN_KBYTE": "20480",
    "CONFIG_MAX_EPOLL_EVENTS": "2",
    "CONFIG_UDS_FILE": "/var/run/jet.socket",
    "WEBSOCKET_PATH": "/api/jet/",
    "CJET_VERSION": "1.10.0",
    "CJET_LAST": "-verif",
    "PROJECT_NAME": "cjet",
}

BASE_CFLAGS = ["-std=gnu99", "-D_GNU_SOURCE", "-DCJET_VERIF=1"]
DEFAULT_CBMC_FLAGS = [
    "--unwinding-assertions",
    "--signed-overflow-check",
    "--undefined-shift-check",
    "--drop-unused-functions",
    "--no-malloc-may-fail",
    "--object-bits", "10",
]
MEM_LIMIT = int(os.environ.get("VERIF_MEM_GB", "10")) * (1 << 30)


def log(msg):
    print(msg, flush=True)


# --------------------------------------------------------------------------- config headers
def gen_config(dst, overrides):
    cfg = dict(DEFAULT_CONFIG)
    cfg.update({k: str(v) for k, v in (overrides or {}).items()})
    out = os.path.join(dst, "generated")
    os.makedirs(out, exist_ok=True)
    for rel, name in (("cjet_config.h.in", "cjet_config.h"),
                      ("linux/config/os_config.h.in", "os_config.h"),
                      ("version.h.in", "version.h")):
        text = open(os.path.join(SRC, rel)).read()
        text = re.sub(r"\$\{(\w+)\}", lambda m: cfg.get(m.group(1), "0"), text)
        open(os.path.join(out, name), "w").write(text)
    return cfg


# --------------------------------------------------------------------------- building
def resolve(path):
    """harness/..., model/... are relative to /verif; src/... relative to the repo."""
    if path.startswith("src/"):
        return os.path.join(REPO, path)
    return os.path.join(ROOT, path)


def compile_units(ob, work, cc, extra_defs, native):
    """compile every unit of the obligation with cc (goto-cc or gcc); returns object list"""
    inc = ["-I", SRC, "-I", work, "-I", os.path.join(ROOT, "model"), "-I", os.path.join(ROOT, "harness"),
           "-I", os.path.join(ROOT, "model", "wrap")]
    objs = []
    units = [ob["harness"]] + list(ob.get("units", [])) + list(ob.get("model", [])) + ["model/nd_log.c"]
    if native:
        units.append("model/replay_main.c")
    for i, u in enumerate(units):
        flags = list(BASE_CFLAGS) + inc + ["-D" + d for d in ob.get("defines", [])] + ["-D" + d for d in extra_defs]
        if u.startswith("src/") or u.startswith("model/wrap/") or ob.get("include_all"):
            for inc_file in ob.get("include", []):
                flags += ["-include", resolve(inc_file)]
        flags += ["-D" + d for d in ob.get("unit_defines", {}).get(u, [])]
        if native:
            flags += ["-g", "-O0", "-fsanitize=address,undefined", "-fno-sanitize-recover=undefined",
                      "-fsanitize=float-cast-overflow", "-w", "-DVERIF_ENTRY=" + ob.get("entry", "harness")]
        obj = os.path.join(work, "u%d.o" % i)
        cmd = [cc] + flags + ["-c", resolve(u), "-o", obj]
        p = subprocess.run(cmd, capture_output=True, text=True)
        if p.returncode != 0:
            raise BuildError("compile %s failed:\n%s\n%s" % (u, " ".join(cmd), p.stderr[-4000:]))
        objs.append(obj)
    return objs


class BuildError(Exception):
    pass


def build_goto(ob, work, record=False):
    defs = ["VERIF_RECORD=1"] if record else []
    objs = compile_units(ob, work, "goto-cc", defs, native=False)
    gb = os.path.join(work, "obl.gb")
    p = subprocess.run(["goto-cc"] + objs + ["-o", gb], capture_output=True, text=True)
    if p.returncode != 0:
        raise BuildError("link failed: " + p.stderr[-4000:])
    # CBMC resolves a call through a function pointer to every function of a compatible type; restricting the
    # candidate set (goto-instrument inserts an assertion that the pointer is one of the targets) keeps symex small
    for i, spec in enumerate(ob.get("fp_restrict", [])):
        out = os.path.join(work, "obl_fp%d.gb" % i)
        p = subprocess.run(["goto-instrument", "--restrict-function-pointer", spec, gb, out], capture_output=True, text=True)
        if p.returncode != 0:
            raise BuildError("goto-instrument --restrict-function-pointer %s failed: %s" % (spec, (p.stdout + p.stderr)[-2000:]))
        gb = out
    return gb


def build_native(ob, work):
    objs = compile_units(ob, work, "gcc", ["VERIF_REPLAY=1"], native=True)
    exe = os.path.join(work, "replay")
    libs = ob.get("native_libs", [])
    p = subprocess.run(["gcc", "-fsanitize=address,undefined"] + objs + ["-o", exe, "-lm"] + libs, capture_output=True, text=True)
    if p.returncode != 0:
        # functions the included real source references but the obligation never reaches (CBMC drops them):
        # give them aborting bodies so that the native replay links
        undef = sorted(set(re.findall(r"undefined reference to `([A-Za-z_][A-Za-z0-9_]*)'", p.stderr)))
        if not undef:
            raise BuildError("native link failed: " + p.stderr[-4000:])
        stub = os.path.join(work, "undef_stubs.c")
        with open(stub, "w") as f:
            f.write("#include <stdio.h>\n#include <stdlib.h>\n")
            for u in undef:
                f.write('void %s(void) { printf("REPLAY-UNREACHED-STUB %s\\n"); abort(); }\n' % (u, u))
        p = subprocess.run(["gcc", "-fsanitize=address,undefined", "-w"] + objs + [stub, "-o", exe, "-lm"] + libs, capture_output=True, text=True)
        if p.returncode != 0:
            raise BuildError("native link failed: " + p.stderr[-4000:])
    return exe


# --------------------------------------------------------------------------- cbmc
def limit_child(mem=None):
    lim = mem or MEM_LIMIT
    resource.setrlimit(resource.RLIMIT_AS, (lim, lim))
    os.setsid()


def cbmc_cmd(ob, gb, trace=False):
    cmd = ["cbmc", gb, "--function", ob.get("entry", "harness"), "--json-ui", "--verbosity", "8"]
    cmd += ["--unwind", str(ob.get("unwind", 6))]
    uw = ob.get("unwindset", {})
    if uw:
        cmd += ["--unwindset", ",".join("%s:%d" % kv for kv in uw.items())]
    flags = list(DEFAULT_CBMC_FLAGS)
    for f in ob.get("drop_flags", []):
        if f in flags:
            flags.remove(f)
    cmd += flags + list(ob.get("flags", []))
    be = ob.get("backend")
    if be == "cvc5-int":
        # cvc5 through tools/shim/cvc5 (--solve-bv-as-int=sum): multiply/divide-by-constant kernels that stall SAT
        cmd += ["--cvc5", "--slice-formula"]
    elif be in ("z3", "cvc5"):
        cmd += ["--" + be]
    elif be in ("cadical",):
        cmd += ["--sat-solver", be]
    if trace:
        cmd += ["--trace"]
    return cmd


def run_cbmc(ob, gb, work, timeout, trace=False):
    cmd = cbmc_cmd(ob, gb, trace)
    timefile = os.path.join(work, "time.txt")
    full = ["/usr/bin/time", "-f", "%M %e", "-o", timefile] + cmd
    t0 = time.time()
    outpath = os.path.join(work, "cbmc.json")
    with open(outpath, "w") as out:
        env = dict(os.environ, PATH=os.path.join(ROOT, "tools", "shim") + ":" + os.environ.get("PATH", ""))
        proc = subprocess.Popen(full, stdout=out, stderr=subprocess.PIPE, preexec_fn=(lambda: limit_child(int(ob["mem_gb"]) * (1 << 30) if ob.get("mem_gb") else None)), env=env)
        try:
            _, err = proc.communicate(timeout=timeout)
            timed_out = False
        except subprocess.TimeoutExpired:
            try:
                os.killpg(proc.pid, 9)
            except ProcessLookupError:
                pass
            proc.wait()
            timed_out = True
            err = b""
    wall = time.time() - t0
    rss_kb = 0
    try:
        parts = open(timefile).read().split()
        rss_kb = int(parts[-2])
    except Exception:
        pass
    res = {"cmd": " ".join(cmd[:1] + ["<obl.gb>"] + cmd[2:]), "wall_s": round(wall, 2), "rss_mb": rss_kb // 1024,
           "timed_out": timed_out, "results": [], "status": None, "solver_s": 0.0, "symex_s": 0.0,
           "vars": 0, "clauses": 0, "solver_calls": 0, "error": None}
    if timed_out:
        res["status"] = "timeout"
        return res
    try:
        data = json.load(open(outpath))
    except Exception as e:
        res["status"] = "error"
        res["error"] = "unparsable cbmc output (%s); exit=%s stderr=%s" % (e, proc.returncode, err.decode(errors="replace")[-500:])
        return res
    for item in data:
        if not isinstance(item, dict):
            continue
        if "messageText" in item:
            txt = item["messageText"]
            m = re.search(r"Runtime decision procedure: ([0-9.]+)s", txt)
            if m:
                res["solver_s"] += float(m.group(1))
            m = re.search(r"Runtime Solver: ([0-9.]+)s", txt)
            if m:
                res["solver_s"] += 0.0  # already part of decision procedure time
            if txt.startswith("Running propositional reduction") or txt.startswith("Running SMT"):
                res["solver_calls"] += 1
            m = re.search(r"Runtime Symex: ([0-9.]+)s", txt)
            if m:
                res["symex_s"] += float(m.group(1))
            m = re.search(r"(\d+) variables, (\d+) clauses", txt)
            if m:
                res["vars"] = max(res["vars"], int(m.group(1)))
                res["clauses"] = max(res["clauses"], int(m.group(2)))
            if item.get("messageType") == "ERROR":
                res["error"] = (res["error"] or "") + txt + "\n"
        if "result" in item:
            res["results"] = item["result"]
        if "cProverStatus" in item:
            res["status"] = item["cProverStatus"]
    if res["status"] is None:
        res["status"] = "error"
        res["error"] = (res["error"] or "") + "no cProverStatus; exit=%s" % proc.returncode
    return res


# --------------------------------------------------------------------------- classification
LABEL_RE = re.compile(r"^(C\d\d)\.[A-Za-z0-9_.]+$")


def classify(ob, r):
    """map one cbmc result to (kind, key). kinds: label, reach, unwind, auto"""
    desc = r.get("description", "")
    if desc.startswith("REACH."):
        return "reach", desc
    if desc.startswith("META."):
        return "meta", desc          # self-checks of the harness (e.g. the planned fault position exists): failing = check out of date, not a violation
    if LABEL_RE.match(desc):
        return "label", desc
    if desc.startswith("unwinding assertion") or "recursion unwinding assertion" in desc:
        return "unwind", r.get("property", desc)
    fn = (r.get("sourceLocation") or {}).get("function", "?")
    return "auto", "auto:%s:%s" % (fn, desc)


def props_of_label(ob, key):
    """properties a labelled assertion bears on: the property named by its prefix, plus the properties the
    obligation declares all of its assertions relevant for (also_for)"""
    lp = ob.get("label_props", {})
    if key in lp:
        return lp[key]
    m = LABEL_RE.match(key)
    out = [m.group(1)] if m else list(ob["props"])
    for p in ob.get("also_for", []):
        if p not in out:
            out.append(p)
    return out


def load_known():
    path = os.path.join(ROOT, "known_findings.json")
    if not os.path.exists(path):
        return []
    return json.load(open(path)).get("findings", [])


# --------------------------------------------------------------------------- trace -> replay
def double_text(val):
    """exact hex-float text of a double from the trace (the decimal 'data' field is rounded)"""
    b = val.get("binary")
    if b and len(b) == 64:
        import struct
        x = struct.unpack(">d", int(b, 2).to_bytes(8, "big"))[0]
        if x != x:
            return "nan"
        if x in (float("inf"), float("-inf")):
            return "inf" if x > 0 else "-inf"
        return x.hex()
    return str(val.get("data", "0"))


def extract_nd(trace):
    ints, dbls = {}, {}
    for step in trace:
        if step.get("stepType") != "assignment":
            continue
        lhs = step.get("lhs", "")
        m = re.match(r"verif_nd_(d?)log\[(\d+)l?\]$", lhs)
        if not m:
            continue
        val = step.get("value", {})
        idx = int(m.group(2))
        if m.group(1) == "d":
            dbls[idx] = double_text(val)
        else:
            b = val.get("binary")
            if b is not None:
                v = int(b, 2)
                if b[0] == "1" and len(b) == 64:
                    v -= 1 << 64
            else:
                v = int(val.get("data", "0"))
            ints[idx] = v
    if not ints and not dbls:
        # plain (non-recording) build: the choices in execution order (valid when formula slicing removed none
        # of them, i.e. for obligations with a handful of choices; used with record=False)
        seq = [st for st in trace if st.get("stepType") == "assignment" and st.get("lhs") == "return_value_nondet_long"]
        for i, st in enumerate(seq):
            b = st.get("value", {}).get("binary")
            v = int(b, 2) if b else int(st.get("value", {}).get("data", "0").rstrip("l"))
            if b and b[0] == "1" and len(b) == 64:
                v -= 1 << 64
            ints[i] = v
        seqd = [st for st in trace if st.get("stepType") == "assignment" and st.get("lhs") == "return_value_nondet_double"]
        for i, st in enumerate(seqd):
            dbls[i] = double_text(st.get("value", {}))
    li = [ints.get(i, 0) for i in range(max(ints) + 1)] if ints else []
    ld = [dbls.get(i, "0") for i in range(max(dbls) + 1)] if dbls else []
    # the log arrays are zero-initialised and a missing entry replays as 0: trailing zeros carry no information
    while li and li[-1] == 0:
        li.pop()
    while ld and ld[-1] in ("0", "0x0.0p+0"):
        ld.pop()
    return li, ld


def summarize_trace(trace, limit=40):
    out = []
    watch = [w for w in os.environ.get("VERIF_TRACE_VARS", "").split(",") if w]
    if watch:
        for step in trace:
            if step.get("stepType") == "assignment" and any(step.get("lhs", "") == w or step.get("lhs", "").startswith(w + ".") or step.get("lhs", "").startswith(w + "[") for w in watch):
                out.append("  %s = %s @%s" % (step.get("lhs"), step.get("value", {}).get("data", step.get("value", {}).get("name")), (step.get("sourceLocation") or {}).get("line")))
        return out[-400:]
    for step in trace:
        st = step.get("stepType")
        if st == "function-call":
            out.append("call " + step.get("function", {}).get("displayName", "?"))
        elif st == "failure":
            out.append("FAIL " + step.get("reason", "") + " @" + str((step.get("sourceLocation") or {}).get("line")))
    return out[-limit:]


def write_values(path, ints, dbls):
    with open(path, "w") as f:
        for v in ints:
            f.write("i %d\n" % v)
        for d in dbls:
            f.write("d %s\n" % d)


def native_replay(ob, work, ints, dbls, label):
    """returns (reproduced, output)"""
    nwork = os.path.join(work, "native")
    os.makedirs(nwork, exist_ok=True)
    gen_config(nwork, ob.get("config"))
    try:
        exe = os.path.join(nwork, "replay")
        if not os.path.exists(exe):
            exe = build_native(ob, nwork)
    except BuildError as e:
        return False, "native build failed: %s" % e
    vals = os.path.join(nwork, "values.txt")
    write_values(vals, ints, dbls)
    env = dict(os.environ, ASAN_OPTIONS="detect_leaks=0:abort_on_error=0", UBSAN_OPTIONS="halt_on_error=1:print_stacktrace=0")
    try:
        p = subprocess.run([exe, vals, label], capture_output=True, text=True, timeout=60, env=env, errors="replace")
    except subprocess.TimeoutExpired:
        return (label.startswith("auto:") or "no_spin" in label), "native replay timed out (non-termination)"
    out = (p.stdout + "\n" + p.stderr)[-3000:]
    if label.startswith("auto:"):
        hit = p.returncode != 0 and ("AddressSanitizer" in out or "runtime error" in out or p.returncode < 0) \
            and "REPLAY-DIVERGED" not in out
        return hit, out
    return (p.returncode == 1 and ("REPLAY-FAIL " + label) in p.stdout), out


def counterexamples(ob, work, label_keys, timeout):
    """one recording + trace run for all failing labels; returns {label: info}"""
    rwork = os.path.join(work, "record")
    os.makedirs(rwork, exist_ok=True)
    gen_config(rwork, ob.get("config"))
    gb = build_goto(ob, rwork, record=ob.get("record", True))
    res = run_cbmc(ob, gb, rwork, timeout, trace=True)
    out = {}
    for r in res["results"]:
        kind, key = classify(ob, r)
        if key in label_keys and key not in out and r.get("status") == "FAILURE" and "trace" in r:
            ints, dbls = extract_nd(r["trace"])
            info = {"ints": ints, "dbls": dbls, "trace_summary": summarize_trace(r["trace"]),
                    "source": r.get("sourceLocation")}
            if ob.get("native_replay", True):
                ok, txt = native_replay(ob, work, ints, dbls, key)
                info["replayed"] = ok
                info["native_output"] = txt
            else:
                info["replayed"] = None
                info["native_output"] = "native replay not applicable: " + ob.get("native_replay_reason", "")
            out[key] = info
    for key in label_keys:
        if key not in out:
            out[key] = {"ints": [], "dbls": [], "replayed": False,
                        "native_output": "no trace found in recording run (status %s)" % res["status"]}
    return out


def counterexample(ob, work, label_key, timeout):
    return counterexamples(ob, work, [label_key], timeout)[label_key]


# --------------------------------------------------------------------------- one obligation
def run_obligation(ob, tier, scratch, want_cex=True):
    t0 = time.time()
    work = os.path.join(scratch, ob["id"].replace("/", "_"))
    os.makedirs(work, exist_ok=True)
    rec = {"id": ob["id"], "props": ob["props"], "harness": ob["harness"], "entry": ob.get("entry", "harness"),
           "units": ob.get("units", []), "model": ob.get("model", []), "functions": ob.get("functions", []),
           "symbolic": ob.get("symbolic", ""), "stubs": ob.get("stubs", []), "assumes": ob.get("assumes", []),
           "bounds": ob.get("bounds", ""), "config": {}, "labels": {}, "reach": {}, "auto_checks": 0, "auto_failed": {},
           "unwind_failed": [], "verdict": None, "notes": []}
    timeout = ob.get("timeout", {}).get(tier, 300 if tier == "quick" else 1800) if isinstance(ob.get("timeout"), dict) \
        else ob.get("timeout", 300 if tier == "quick" else 1800)
    if os.environ.get("VERIF_DEV_TIMEOUT"):
        timeout = int(os.environ["VERIF_DEV_TIMEOUT"])
    try:
        cfg = gen_config(work, ob.get("config"))
        rec["config"] = {k: cfg[k] for k in (ob.get("config") or {})}
        gb = build_goto(ob, work)
        res = run_cbmc(ob, gb, work, timeout)
    except BuildError as e:
        rec["verdict"] = "build_error"
        rec["notes"].append(str(e))
        rec["wall_s"] = round(time.time() - t0, 2)
        return rec
    rec["cbmc"] = {k: res[k] for k in ("cmd", "wall_s", "rss_mb", "solver_s", "symex_s", "vars", "clauses", "solver_calls", "status")}
    if res["status"] == "timeout":
        rec["verdict"] = "not_discharged"
        rec["notes"].append("timeout after %ss" % timeout)
        rec["wall_s"] = round(time.time() - t0, 2)
        return rec
    if res["status"] == "error" and "out of memory" in (res["error"] or "").lower():
        # the memory budget is a solver budget like the time budget: no verdict, nothing claimed (never a success)
        rec["verdict"] = "not_discharged"
        rec["notes"].append("memory budget exceeded: " + (res["error"] or "").strip())
        rec["wall_s"] = round(time.time() - t0, 2)
        return rec
    if res["status"] == "error" or not res["results"]:
        rec["verdict"] = "error"
        rec["notes"].append(res["error"] or "no results")
        rec["wall_s"] = round(time.time() - t0, 2)
        return rec
    failing = []
    for r in res["results"]:
        kind, key = classify(ob, r)
        st = r.get("status")
        if kind == "reach":
            rec["reach"][key] = "FAILURE" if "FAILURE" in (rec["reach"].get(key), st) else st   # a witness placed at several sites: reached at least once
        elif kind == "label":
            prev = rec["labels"].get(key)
            rec["labels"][key] = "FAILURE" if "FAILURE" in (prev, st) else st
            if st == "FAILURE":
                failing.append(key)
        elif kind == "meta":
            if st == "FAILURE":
                rec["unwind_failed"].append(key)
        elif kind == "unwind":
            if st == "FAILURE":
                rec["unwind_failed"].append(key)
        else:
            rec["auto_checks"] += 1
            if st == "FAILURE":
                rec["auto_failed"][key] = r.get("sourceLocation")
                failing.append(key)
    failing = sorted(set(failing))
    # vacuity
    must = ["REACH.end"] + ["REACH." + x for x in ob.get("reach", [])]
    vac = [k for k in must if rec["reach"].get(k) != "FAILURE"]
    # (REACH labels of branches that belong to other obligations sharing the harness function are ignored)
    rec["vacuous"] = vac
    rec["failing"] = failing
    rec["cex"] = {}
    if want_cex:
        known = {(k["obligation"], k["label"]) for k in load_known() if k.get("status") == "known"}
        need = [key for key in failing if (ob["id"], key) not in known]
        if need:
            try:
                rec["cex"] = counterexamples(ob, work, need, timeout)
            except BuildError as e:
                rec["cex"] = {key: {"replayed": False, "native_output": "record build failed: %s" % e, "ints": [], "dbls": []} for key in need}
    if vac:
        rec["verdict"] = "vacuous"
    elif rec["unwind_failed"]:
        rec["verdict"] = "unwind_bound"
    elif failing:
        rec["verdict"] = "failed"
    else:
        rec["verdict"] = "discharged"
    rec["wall_s"] = round(time.time() - t0, 2)
    return rec


# --------------------------------------------------------------------------- per property
def load_obligations():
    import obligations
    return obligations.OBLIGATIONS


def select(obls, prop, tier):
    out = []
    for ob in obls:
        if prop not in ob["props"]:
            continue
        t = ob.get("tier", "quick")
        if tier == "quick" and t != "quick":
            continue
        out.append(ob)
    return out


def check_property(prop, tier, jobs, keep=False):
    t0 = time.time()
    seed = int(os.environ.get("VERIF_SEED", "0") or 0)
    obls = select(load_obligations(), prop, tier)
    known = load_known()
    scratch = tempfile.mkdtemp(prefix="verif-%s-" % prop, dir=os.environ.get("TMPDIR") or None)
    recs = []
    try:
        with ThreadPoolExecutor(max_workers=jobs) as ex:
            recs = list(ex.map(lambda ob: run_obligation(ob, tier, scratch), obls))
    finally:
        if not keep:
            shutil.rmtree(scratch, ignore_errors=True)
        else:
            log("scratch kept at " + scratch)
    os.makedirs(os.path.join(ROOT, "replays"), exist_ok=True)
    violations, knowns, broken, notdis = [], [], [], []
    queries = 0
    labels_ok = 0
    solver_s = 0.0
    for ob, rec in zip(obls, recs):
        if "cbmc" in rec:
            queries += 1
            solver_s += rec["cbmc"]["solver_s"]
        v = rec["verdict"]
        if v == "not_discharged":
            notdis.append(rec["id"])
            continue
        if v in ("build_error", "error", "vacuous", "unwind_bound"):
            # an unwinding bound that is exceeded may itself be the subject (termination labels)
            if v == "unwind_bound" and ob.get("unwind_label") and ob["unwind_label"].split(".")[0] == prop:
                rec["failing"] = sorted(set(rec.get("failing", []) + [ob["unwind_label"]]))
                rec["labels"][ob["unwind_label"]] = "FAILURE"
                if ob["unwind_label"] not in rec.get("cex", {}):
                    rec.setdefault("cex", {})[ob["unwind_label"]] = {"replayed": None, "ints": [], "dbls": [],
                        "native_output": "loop bound derived from the configuration exceeded: " + ", ".join(rec["unwind_failed"])}
            else:
                broken.append("%s: %s %s" % (rec["id"], v, "; ".join(rec["notes"])[:600] or rec.get("vacuous") or rec.get("unwind_failed")))
                if v not in ("vacuous", "unwind_bound"):
                    continue
                # a missing reachability witness or an exceeded loop bound invalidates the labels that PASSED;
                # labels that failed (and reproduce natively) are still violations
                rec["labels"] = {k: st for k, st in rec["labels"].items() if st != "SUCCESS"}
        for key, st in rec["labels"].items():
            if st == "SUCCESS" and prop in props_of_label(ob, key):
                labels_ok += 1
        for key in rec.get("failing", []):
            if prop not in props_of_label(ob, key):
                continue
            kf = [k for k in known if k["obligation"] == ob["id"] and k["label"] == key and k.get("status") == "known"]
            if kf:
                knowns.append((kf[0], rec["id"], key))
                continue
            cex = rec.get("cex", {}).get(key, {})
            rpath = os.path.join(ROOT, "replays", "%s.%s.json" % (rec["id"], re.sub(r"[^A-Za-z0-9_.-]+", "_", key)[:120]))
            json.dump({"obligation": rec["id"], "label": key, "property": prop, "ints": cex.get("ints", []),
                       "dbls": cex.get("dbls", []), "replayed_natively": cex.get("replayed"),
                       "native_output": cex.get("native_output", ""), "trace_summary": cex.get("trace_summary", []),
                       "source": cex.get("source") or rec["auto_failed"].get(key)}, open(rpath, "w"), indent=1)
            if cex.get("replayed") is False:
                broken.append("%s: counterexample for %s did not reproduce natively (%s)" % (rec["id"], key, rpath))
            else:
                violations.append((rec["id"], key, rpath))
    for kf, oid, key in knowns:
        log("KNOWN-FINDING: property=%s %s [%s %s]" % (prop, kf["what"], oid, key))
    for oid, key, rpath in violations:
        log("VIOLATION property=%s replay=%s   (obligation %s, label %s)" % (prop, rpath, oid, key))
    for b in broken:
        log("BROKEN-CHECK property=%s %s" % (prop, b))
    for n in notdis:
        log("NOT-DISCHARGED property=%s obligation=%s (solver budget exceeded; nothing is claimed for it)" % (prop, n))
    discharged = [r for r in recs if r["verdict"] in ("discharged", "failed")]
    wall = time.time() - t0
    write_evidence(prop, tier, seed, obls, recs, labels_ok, queries, solver_s, violations, knowns, notdis, broken, wall)
    log("property %s tier %s: %d obligations, %d decided, %d labelled assertions proved, %d known findings, %d violations, "
        "%d not discharged, %d broken, %.1fs wall, %.1fs solver"
        % (prop, tier, len(obls), len(discharged), labels_ok, len(knowns), len(violations), len(notdis), len(broken), wall, solver_s))
    if violations:
        return 1
    if broken or not discharged:
        return 2
    return 0


def write_evidence(prop, tier, seed, obls, recs, labels_ok, queries, solver_s, violations, knowns, notdis, broken, wall):
    evdir = os.environ.get("VERIF_EVIDENCE_DIR", os.path.join(ROOT, "evidence"))   # development runs against a scratch tree write elsewhere
    os.makedirs(evdir, exist_ok=True)
    import obligations
    meta = getattr(obligations, "PROPERTY_NOTES", {}).get(prop, {})
    samples = []
    assumptions = set()
    stubs = set()
    for ob, r in zip(obls, recs):
        s = {k: r.get(k) for k in ("id", "harness", "entry", "units", "model", "functions", "symbolic", "bounds", "config",
                                   "verdict", "labels", "reach", "auto_checks", "wall_s")}
        s["unwind"] = ob.get("unwind", 6)
        s["unwindset"] = ob.get("unwindset", {})
        s["auto_failed"] = sorted(r.get("auto_failed", {}).keys())
        if "cbmc" in r:
            s["cbmc"] = r["cbmc"]
        if r.get("notes"):
            s["notes"] = r["notes"]
        samples.append(s)
        for a in ob.get("assumes", []):
            assumptions.add("%s: %s" % (ob["id"], a))
        for st in ob.get("stubs", []):
            stubs.add(st)
    ev = {
        "property_id": prop,
        "tier": tier,
        "seed": seed,
        "level": "model_checking",
        "coverage": {
            "evaluations": max(queries, 0),
            "distinct_nontrivial": labels_ok,
            "rule": "evaluations = CBMC runs (one SAT/SMT decision problem per obligation, all assertions of the obligation "
                    "decided in it). distinct_nontrivial = distinct labelled assertions of this property reported SUCCESS by "
                    "CBMC in an obligation whose reachability witnesses (REACH.* = assert(0) at the end of the harness and at "
                    "named branches) were all reported FAILURE, i.e. proved non-vacuously; automatic memory-safety/overflow "
                    "checks are counted separately per obligation in samples[].auto_checks.",
            "samples": samples,
            "obligations": len(obls),
            "discharged": len([r for r in recs if r["verdict"] == "discharged"]),
            "decided_with_failures": [r["id"] for r in recs if r["verdict"] == "failed"],
            "not_discharged": notdis,
            "broken": broken,
            "known_findings": [{"obligation": o, "label": k, "what": kf["what"]} for kf, o, k in knowns],
            "violations": [{"obligation": o, "label": k, "replay": p} for o, k, p in violations],
            "solver_seconds": round(solver_s, 2),
            "stubs": sorted(stubs),
            "composition_argument": meta.get("composition", ""),
            "outside_the_claim": meta.get("outside", ""),
            "exhaustive": False,
        },
        "assumptions": sorted(assumptions) + [
            "bounded model checking: every verdict holds for all values of the symbolic variables inside the stated "
            "unwinding/size bounds only (unwinding assertions on), nothing is claimed outside them",
            "the composition of obligations into the property is a prose argument, not machine checked",
            "CBMC 6.11 and its SAT back end are trusted",
        ],
        "wall_s": round(wall, 2),
        "violations": len(violations),
    }
    json.dump(ev, open(os.path.join(evdir, prop + ".json"), "w"), indent=1)


# --------------------------------------------------------------------------- misc commands
def cmd_obligation(oid, tier, keep):
    obls = [o for o in load_obligations() if o["id"] == oid]
    if not obls:
        log("no such obligation")
        return 2
    scratch = tempfile.mkdtemp(prefix="verif-obl-", dir=os.environ.get("TMPDIR") or None)
    try:
        rec = run_obligation(obls[0], tier, scratch, want_cex=not os.environ.get("VERIF_NO_CEX"))
    finally:
        if keep:
            log("scratch kept at " + scratch)
        else:
            shutil.rmtree(scratch, ignore_errors=True)
    show = {k: rec.get(k) for k in ("id", "verdict", "labels", "reach", "auto_checks", "auto_failed", "unwind_failed",
                                    "vacuous", "notes", "cbmc", "wall_s")}
    log(json.dumps(show, indent=1))
    for k, c in rec.get("cex", {}).items():
        log("--- counterexample for %s: replayed=%s ints=%s dbls=%s" % (k, c.get("replayed"), c.get("ints"), c.get("dbls")))
        log("    " + "\n    ".join(c.get("trace_summary", [])[-15:]))
        log("    native: " + (c.get("native_output") or "").strip()[-1500:])
    return 0


def cmd_replay(path):
    data = json.load(open(path))
    ob = [o for o in load_obligations() if o["id"] == data["obligation"]][0]
    scratch = tempfile.mkdtemp(prefix="verif-replay-", dir=os.environ.get("TMPDIR") or None)
    try:
        ok, out = native_replay(ob, scratch, data.get("ints", []), data.get("dbls", []), data["label"])
    finally:
        shutil.rmtree(scratch, ignore_errors=True)
    log(out)
    log("REPRODUCED" if ok else "NOT REPRODUCED")
    return 1 if ok else 0


def cmd_record_finding(oid, label):
    ob = [o for o in load_obligations() if o["id"] == oid][0]
    scratch = tempfile.mkdtemp(prefix="verif-rec-", dir=os.environ.get("TMPDIR") or None)
    try:
        gen_config(scratch, ob.get("config"))
        info = counterexample(ob, scratch, label, 1800)
    finally:
        shutil.rmtree(scratch, ignore_errors=True)
    os.makedirs(os.path.join(ROOT, "findings"), exist_ok=True)
    path = os.path.join(ROOT, "findings", "%s.%s.json" % (oid, re.sub(r"[^A-Za-z0-9_.-]+", "_", label)[:120]))
    json.dump({"obligation": oid, "label": label, "ints": info.get("ints"), "dbls": info.get("dbls"),
               "replayed_natively": info.get("replayed"), "native_output": info.get("native_output"),
               "trace_summary": info.get("trace_summary"), "source": info.get("source")}, open(path, "w"), indent=1)
    log("wrote %s replayed=%s" % (path, info.get("replayed")))
    log((info.get("native_output") or "")[-1500:])
    return 0


def main():
    ap = argparse.ArgumentParser()
    ap.add_argument("--property")
    ap.add_argument("--tier", default=os.environ.get("VERIF_TIER", "quick"), choices=["quick", "thorough"])
    ap.add_argument("--obligation")
    ap.add_argument("--replay")
    ap.add_argument("--record-finding", nargs=2)
    ap.add_argument("--list", action="store_true")
    ap.add_argument("--jobs", type=int, default=int(os.environ.get("VERIF_JOBS", "14")))
    ap.add_argument("--keep", action="store_true")
    a = ap.parse_args()
    if a.list:
        for ob in load_obligations():
            log("%-34s %-9s %s" % (ob["id"], ob.get("tier", "quick"), ",".join(ob["props"])))
        return 0
    if a.replay:
        return cmd_replay(a.replay)
    if a.record_finding:
        return cmd_record_finding(*a.record_finding)
    if a.obligation:
        return cmd_obligation(a.obligation, a.tier, a.keep)
    if a.property:
        return check_property(a.property, a.tier, a.jobs, a.keep)
    ap.print_help()
    return 2


if __name__ == "__main__":
    sys.exit(main())
