"""Obligation table (see DESIGN.md 1.1). One entry = one goto binary + one CBMC run.

fields: id, props, harness, entry, units (repo sources linked besides what the harness #includes),
model (files of /verif/model linked), defines, include (-include files), unit_defines, config (overrides of the
verification-sized configuration), unwind, unwindset, flags, tier (quick|thorough), timeout,
reach (REACH.* witnesses that must be reported failing besides REACH.end),
functions/symbolic/stubs/assumes/bounds: documentation echoed into the evidence file.
"""

OBLIGATIONS = []
PROPERTY_NOTES = {}


def O(**kw):
    kw.setdefault("tier", "quick")
    OBLIGATIONS.append(kw)
    return kw


# ------------------------------------------------------------------------------------------------ C18
PROPERTY_NOTES["C18"] = {
    "composition": "byte_step is a simulation between is_byte_valid and the RFC 3629 automaton through the abstraction "
                   "alpha, from every invariant state and for all 256 bytes, plus the base case (init = START). The "
                   "byte-wise entry points only iterate that step (checked for 3 symbolic bytes incl. the is_complete "
                   "rule), so their verdict equals the automaton's for every length and every split across calls. "
                   "word32/word64 show that one word from any invariant state equals 4/8 automaton steps; "
                   "auto_aligned ties the front end to the byte-wise verdict for every length<=17 at every alignment.",
    "outside": "texts longer than 17 bytes through the auto-aligned front end (its three sub-calls are covered by the "
               "step/word lemmas, the length arithmetic only up to 17); big-endian hosts.",
}
_c18 = dict(props=["C18"], harness="harness/c18_utf8.c", functions=["is_byte_valid", "cjet_init_checker"],
            stubs=[], assumes=["checker state satisfies the invariant alpha(c) >= 0 (every state reachable from init does: byte_step proves it inductive)"])
O(id="C18.byte_step", entry="harness_step", unwind=2, reach=["mid_sequence", "reject"],
  symbolic="checker state (3 bytes, constrained by the invariant), input byte (all 256)", bounds="none (one step)", **_c18)
O(id="C18.byte_sequence", entry="harness_bytes", unwind=5, reach=["three_bytes_complete"],
  symbolic="checker state, 3 bytes, length 0..3, is_complete, entry point (text/byte)", bounds="<=3 bytes per call",
  **dict(_c18, functions=["cjet_is_byte_sequence_valid", "cjet_is_text_valid", "is_byte_valid"]))
O(id="C18.word32", entry="harness_word32", unwind=6, reach=["word_from_mid_sequence"],
  symbolic="checker state, all 2^32 words, is_complete", bounds="one word",
  **dict(_c18, functions=["cjet_is_word_sequence_valid", "is_byte_valid"]))
O(id="C18.word64", entry="harness_word64", unwind=10,
  symbolic="checker state, all 2^64 words, is_complete", bounds="one word",
  **dict(_c18, functions=["cjet_is_word64_sequence_valid", "is_byte_valid"]))
O(id="C18.word32_pair", entry="harness_word32_pair", unwind=6,
  symbolic="two 32-bit words from the start state, is_complete = true", bounds="two words",
  **dict(_c18, functions=["cjet_is_word_sequence_valid", "is_byte_valid"]))
for _off in range(8):
    O(id="C18.auto_aligned_off%d" % _off, entry="harness_auto", unwind=19, reach=["auto_word_path"],
      defines=["ALEN=17", "AOFF=%d" % _off],
      symbolic="text bytes, length 0..17, is_complete; text in an exact-size heap object at alignment %d" % _off,
      bounds="length <= 17 (one 64-bit word + pre/post bytes); alignment enumerated 0..7 over eight obligations",
      timeout={"quick": 600, "thorough": 1800},
      **dict(_c18, functions=["cjet_is_word_sequence_valid_auto_alligned", "cjet_is_word64_sequence_valid",
                              "cjet_is_byte_sequence_valid", "is_byte_valid"]))

# ------------------------------------------------------------------------------------------------ C17
PROPERTY_NOTES["C17"] = {
    "composition": "Inv (hop bits point to live slots whose home is that bucket; every live slot is announced by its "
                   "home; keys unique; free slots zeroed; hop bits below add_range) holds for the created table and is "
                   "preserved by put/remove from ANY Inv table with ANY hash assignment (step obligations), and on Inv "
                   "tables put/get/remove have exact map semantics for the operated key and an arbitrary other key. By "
                   "induction this holds after every operation sequence. hash_range shows the real hash functions map "
                   "into the table for orders 2..13, which is all the step lemmas use of them.",
    "outside": "table orders >= 4 in quick (order 3 in thorough), hence the production orders 6 and 13 and the "
               "displacement branch find_closer_entry (unreachable below order 6: free_distance < add_range <= 16 < 32); "
               "key universe of 6 keys; single-letter string keys.",
}
_KT = {0: "u32", 1: "u64", 2: "str"}
_MODE = {0: "put", 1: "get", 2: "remove"}
_REACH = {0: ["put_overwrite", "put_insert", "put_full"], 1: ["get_hit", "get_miss"], 2: ["remove_hit", "remove_miss"]}
for _order, _tier in ((2, "quick"), (3, "thorough")):
    for _kt in (0, 1, 2):
        for _mode in (0, 1, 2):
            O(id="C17.step_%s_%s_o%d" % (_MODE[_mode], _KT[_kt], _order), props=["C17"] + (["C04", "C03"] if _kt == 2 and _order == 2 else []),
              harness="harness/c17_hashtable.c", tier=_tier,
              defines=["KT=%d" % _kt, "MODE=%d" % _mode, "ORDER=%d" % _order], unwind=2 * (1 << _order) + 2,
              unwindset={"strcmp.0": 3}, reach=_REACH[_mode],
              functions=["hashtable_%s_T (DECLARE_HASHTABLE_%s)" % (_MODE[_mode], _KT[_kt].upper())],
              symbolic="whole table (hop bitmaps, keys, values), home bucket of each of 6 keys, operated key, observed key, value",
              stubs=["hs_hash32/hs_hash6432shift replaced by an arbitrary function key -> bucket (solver variables)"],
              assumes=["pre-state satisfies the representation invariant Inv (inductive: proved preserved by put/remove)"],
              bounds="order %d (%d slots), 6 keys" % (_order, 1 << _order),
              timeout={"quick": 600, "thorough": 3000},
              label_props={} )
O(id="C17.hash_range", props=["C17"], harness="harness/c17_hashtable.c", entry="harness_hash_range",
  defines=["KT=0", "MODE=0", "ORDER=2"], unwind=2,
  functions=["hs_hash32", "hs_hash6432shift"], symbolic="key (all 2^32 / 2^64), order 2..13", bounds="none",
  stubs=[], assumes=[])

# ------------------------------------------------------------------------------------------------ buffered socket steps (C09 C10 C05 C11)
_bs = dict(harness="harness/bs_steps.c", unwind=8,
           stubs=["socket_writev_with_prefix: accepts any prefix >=1 byte of the gathered buffers, EAGAIN, or EPIPE (symbolic)",
                  "socket_read: delivers 1..count arbitrary bytes, 0 (FIN), EAGAIN or ECONNRESET (symbolic)",
                  "memcpy/memmove: byte-loop stubs (symbolic lengths)", "jet_memmem: reference first-occurrence search (glibc memmem contract)",
                  "log_err: empty"],
           fp_restrict=["error_function.function_pointer_call.1/on_error"],   # (goto-instrument mis-handles restricted calls inside loops: only this non-loop site is restricted)
           config={"CONFIG_MAX_WRITE_BUFFER_SIZE": 4, "CONFIG_MAX_MESSAGE_SIZE": 4})
_bs3 = dict(_bs, unwind=5, config={"CONFIG_MAX_WRITE_BUFFER_SIZE": 4, "CONFIG_MAX_MESSAGE_SIZE": 3},
            unwindset={"get_read_ptr.0": 5, "internal_read_until.0": 5, "verif_memmove.0": 4, "verif_memmove.1": 4, "socket_read.0": 4,
                       "strlen.0": 4, "go_reading.0": 3, "jet_memmem.0": 3, "jet_memmem.1": 4})
_bs4 = dict(_bs, unwind=6, tier="thorough", config={"CONFIG_MAX_WRITE_BUFFER_SIZE": 4, "CONFIG_MAX_MESSAGE_SIZE": 4},
            unwindset={"get_read_ptr.0": 6, "internal_read_until.0": 6, "verif_memmove.0": 5, "verif_memmove.1": 5, "socket_read.0": 5,
                       "strlen.0": 4, "go_reading.0": 3, "jet_memmem.0": 3, "jet_memmem.1": 5})
O(id="C10.writev_step", props=["C10", "C11"], entry="harness_writev", reach=["partial_then_queued", "refused", "hard_error"],
  functions=["buffered_socket_writev", "copy_iovec_to_write_buffer", "copy_single_buffer", "send_buffer"],
  symbolic="pending byte count and write-buffer contents, two frame chunks (lengths 0..2 each, contents), kernel verdict of every write call, tracked stream position",
  assumes=["to_write <= W (representation invariant of the write buffer; proved preserved: C10.pending_count_in_bounds)"],
  bounds="W=4, frame = 2 chunks of <=2 bytes", timeout={"quick": 600, "thorough": 1800}, **_bs)
O(id="C10.flush_step", props=["C10"], entry="harness_flush", reach=["flush_would_block_with_rest"],
  functions=["write_function", "send_buffer"],
  symbolic="pending byte count and contents, kernel verdict of every write call, tracked stream position",
  assumes=["to_write <= W"], bounds="W=4", **_bs)
O(id="C09.read_exact_step", props=["C09", "C06"], entry="harness_read_exactly", reach=["handed_tracked", "partial_then_block"],
  functions=["get_read_ptr", "fill_buffer", "reorganize_read_buffer"],
  symbolic="read/write pointer positions, buffer contents, requested count 1..M+2, every kernel read verdict/amount/bytes, tracked stream position",
  assumes=["read_buffer <= read_ptr <= write_ptr <= read_buffer+M (proved preserved: C09.reader_invariant_preserved)"],
  bounds="M=3", **_bs3)
O(id="C09.read_exact_step_m4", props=["C09", "C06"], entry="harness_read_exactly", reach=["handed_tracked", "partial_then_block"],
  functions=["get_read_ptr", "fill_buffer", "reorganize_read_buffer"],
  symbolic="read/write pointer positions, buffer contents, requested count 1..M+2, every kernel read verdict/amount/bytes, tracked stream position",
  assumes=["read_buffer <= read_ptr <= write_ptr <= read_buffer+M (proved preserved: C09.reader_invariant_preserved)"],
  bounds="M=4", **_bs4)
O(id="C09.read_until_step", props=["C09", "C06", "C13"], entry="harness_read_until", reach=["line_after_read", "line_too_long"],
  functions=["internal_read_until", "fill_buffer", "reorganize_read_buffer"],
  symbolic="read/write pointer positions, buffer contents, every kernel read verdict/amount/bytes, tracked stream position; delimiter CRLF",
  assumes=["read_buffer <= read_ptr <= write_ptr <= read_buffer+M"], bounds="M=3", **_bs3)
O(id="C09.read_until_step_m4", props=["C09", "C06", "C13"], entry="harness_read_until", reach=["line_after_read", "line_too_long"],
  functions=["internal_read_until", "fill_buffer", "reorganize_read_buffer"],
  symbolic="read/write pointer positions, buffer contents, every kernel read verdict/amount/bytes, tracked stream position; delimiter CRLF",
  assumes=["read_buffer <= read_ptr <= write_ptr <= read_buffer+M"], bounds="M=4", **_bs4)
_fpc = ["error_function.function_pointer_call.1/closing_error"]
_bs3c = dict({k: v for k, v in _bs3.items() if k != "harness"}, fp_restrict=_fpc)
_bs4c = dict({k: v for k, v in _bs4.items() if k != "harness"}, fp_restrict=_fpc)
for _w, _wn in ((0, "read_exactly"), (1, "read_until"), (2, "readiness_event")):
    for _cfg, _sfx, _m in ((_bs3c, "", 3), (_bs4c, "_m4", 4)):
        O(id="C05.read_after_close_%s%s" % (_wn, _sfx), props=["C05", "C06"], entry="harness_read_after_close",
          harness="harness/c05_read_close.c",
          reach=["closed_in_callback"], defines=["WHICH=%d" % _w],
          functions=["buffered_socket_read_exactly", "buffered_socket_read_until", "read_function", "go_reading", "error_function"],
          symbolic="requested count, kernel read verdicts/bytes, whether each callback closes (and frees) the socket, loop add verdict",
          assumes=["the read callback closes at the latest on its 2nd invocation (bounds the read loop)"],
          bounds="M=%d; entry point %s; heap-allocated socket object really freed by the closing callback" % (_m, _wn), **_cfg)

# ------------------------------------------------------------------------------------------------ linux_io.c leaves (C07 C08 C11)
_lio = dict(harness="harness/linux_io_leaves.c", unwind=34,
            stubs=["close/fcntl/getsockname/setsockopt/accept: symbolic results over a ghost descriptor table",
                   "alloc_jet_peer/buffered_socket_acquire/alloc_http_connection: may return NULL (symbolic)",
                   "buffered_socket_init/init_socket_peer/init_http_connection: record ownership only", "log_err: empty"])
O(id="C07.fd_hygiene_jet", props=["C07"], entry="harness_fd_jet", reach=["jet_established", "jet_setup_failed"],
  functions=["handle_new_jet_connection", "prepare_peer_socket", "set_fd_non_blocking", "configure_keepalive"],
  symbolic="which of fcntl(GET/SET), getsockname, the k-th setsockopt, peer allocation, socket allocation fails; address family",
  assumes=[], bounds="one accepted descriptor", **_lio)
O(id="C07.fd_hygiene_http", props=["C07", "C13"], entry="harness_fd_http", reach=["http_established", "http_setup_failed"],
  functions=["handle_http", "prepare_peer_socket", "set_fd_non_blocking", "configure_keepalive"],
  symbolic="which of fcntl(GET/SET), getsockname, the k-th setsockopt, connection allocation, socket allocation, connection init fails; address family",
  assumes=[], bounds="one accepted descriptor", **_lio)
O(id="C11.accept_errors", props=["C11"], entry="harness_accept", reach=["transient_error", "accepted"],
  functions=["accept_common"], symbolic="errno of a failing first accept (all int values) or a successful accept followed by EAGAIN",
  assumes=[], bounds="two accept calls", **_lio)
O(id="C08.origin", props=["C08"], entry="harness_origin", reach=["af_unix", "v6_local"],
  functions=["is_localhost"], symbolic="first 32 bytes of the sockaddr_storage (family, port, address)",
  assumes=[], bounds="none", **_lio)

# ------------------------------------------------------------------------------------------------ peer.c / timer / alloc leaves
O(id="C06.log_line", props=["C06"], harness="harness/peer_leaves.c", entry="harness_log_line", reach=["long_name"], unwind=4,
  functions=["log_peer_err", "log_peer_info", "get_peer_name"],
  symbolic="length of the client-chosen peer name 0..130 (as the would-be length returned by snprintf), which log function, one arbitrary written position per formatting call",
  stubs=["snprintf/vsnprintf: C99 contract stubs (write at most size bytes, return the would-be length)", "log_err/log_info: count calls"],
  assumes=[], bounds="peer name <= 130 characters")
O(id="C08.fresh_peer_groups", props=["C08", "C07", "C05", "C15"], harness="harness/peer_leaves.c", entry="harness_fresh_peer",
  reach=["peer_created", "init_failed"], unwind=4, functions=["init_peer", "free_peer_resources", "get_number_of_peers"],
  symbolic="initial (garbage) contents of the three group masks, locality flag, whether the routing table allocation fails",
  stubs=["add_routing_table: may fail (symbolic)", "router/fetch/element teardown functions: empty (covered by C05 scenario obligations)"],
  assumes=[], bounds="one peer")
_tl = dict(harness="harness/timer_leaves.c", unwind=4,
           stubs=["timerfd_create/timerfd_settime/socket_close/socket_read: symbolic results over a ghost descriptor",
                  "event loop add/remove: record the registration, assert the loop object they receive",
                  "create_error_response_from_request: returns a marker object"])
O(id="C07.timer_lifecycle", props=["C07", "C14"], entry="harness_timer_lifecycle", reach=["init_failed", "destroyed"], defines=["NS_BITS=24"],
  functions=["cjet_timer_init", "timer_start", "timer_cancel", "timer_read", "cjet_timer_destroy", "convert_timeoutns_to_itimerspec"],
  symbolic="timerfd_create / loop add / settime failures, deadline in ns (< 2^24 here; all 2^64 in C14.itimerspec_full_range), expiry vs cancel", assumes=[], bounds="one timer", **_tl)
O(id="C14.itimerspec_full_range", props=["C14"], entry="harness_itimerspec", backend="cvc5-int", record=False, defines=["NS_BITS=24"],
  functions=["convert_timeoutns_to_itimerspec"], symbolic="deadline in ns (all 2^64 values)", assumes=[], bounds="none", **_tl)
O(id="C14.timeout_value", props=["C14"], entry="harness_timeout_value", backend="z3", reach=["default_used", "not_a_number", "too_small", "too_large", "accepted"],
  functions=["get_timeout_in_nsec", "convert_seconds_to_nsec"], flags=["--conversion-check"],
  symbolic="presence, JSON type and double value of the timeout member (every non-NaN double incl. infinities), default",
  assumes=["timeout value is not NaN (cJSON's number parser cannot produce one)"], bounds="none", **_tl)
O(id="C14.timeout_huge", props=["C14", "C06"], entry="harness_timeout_huge", flags=["--conversion-check"],
  functions=["get_timeout_in_nsec", "convert_seconds_to_nsec"], symbolic="double value of the timeout member (every non-NaN double)",
  assumes=["timeout value is not NaN"], bounds="none", **_tl)
for _uc, _nm in ((0, "malloc"), (1, "calloc")):
    O(id="C07.alloc_cap_" + _nm, props=["C07", "C15"], harness="harness/alloc_leaves.c", entry="harness_alloc_cap", reach=["allocated", "refused"], unwind=3,
      defines=["USE_CALLOC=1"] if _uc else [],
      drop_flags=["--no-malloc-may-fail"], flags=["--malloc-may-fail", "--malloc-fail-null"],
      functions=["cjet_" + _nm, "cjet_free", "cjet_get_alloc_size"],
      symbolic="accounted total (any value <= cap), request size <= 2^32 (calloc: nmemb,size <= 255), whether the OS allocation fails",
      stubs=["libc malloc/calloc: CBMC model, may return NULL"], assumes=["allocated_memory <= cap before the call (proved preserved)"],
      bounds="malloc request sizes <= 2^32, calloc nmemb,size <= 255; larger sizes (size+8 / nmemb*size wrap) are outside the claim",
      config={"CONFIG_MAX_HEAPSIZE_IN_KBYTE": 20480})

# ------------------------------------------------------------------------------------------------ protocol scenarios (cJSON model)
_PROTO_UNITS = ["src/peer.c", "model/wrap/element_abs.c", "src/fetch.c", "model/wrap/table_abs.c", "src/response.c", "model/wrap/router_abs.c", "src/timer.c",
                "src/groups.c", "src/jet_string.c", "src/linux/jet_string.c", "src/parse.c", "src/config.c", "src/info.c",
                "src/authenticate.c"]
_SCN_STUBS = ["cJSON: bounded model (model/cjson_model.c): one heap object per node/string, case-insensitive GetObjectItem, no text rendering",
              "cjet_malloc/cjet_calloc/cjet_free: typed stub over malloc with live-block counter and k-th-allocation failure injection",
              "transport: peer->send_message records the JSON tree being sent; symbolic failing peer / failing send index",
              "cjet_timer_init/destroy/start/cancel: timer model (created/armed/destroyed ghost state)",
              "log_err/log_peer_err/...: empty", "credentials_ok/change_password: not part of these scenarios (return NULL)"]
_scn = dict(units=_PROTO_UNITS, model=["model/cjson_model.c", "model/alloc_stub.c"], include=["model/alloc_macros.h"],
            unit_defines={"src/peer.c": ["log_peer_err=real_log_peer_err", "log_peer_info=real_log_peer_info"]},
            unwind=6, unwindset={"find_closer_entry_route_table.0": 1, "find_closer_entry_route_table.1": 1,
                                 "find_closer_entry_element_table.0": 1, "find_closer_entry_element_table.1": 1, "create_matcher.0": 8, "hash_func_route_table_string.0": 20, "hash_func_element_table_string.0": 8, "strlen.0": 74, "dupstr.0": 74, "ci_eq.0": 24, "strcmp.0": 24, "strncmp.0": 24, "strncpy.0": 74, "cpystr.0": 22},
            flags=["--max-field-sensitivity-array-size", "256"],
            stubs=_SCN_STUBS, config={"CONFIG_ELEMENT_TABLE_ORDER": 2, "CONFIG_ROUTING_TABLE_ORDER": 2, "CONFIG_INITIAL_FETCH_TABLE_SIZE": 2},
            timeout={"quick": 900, "thorough": 3600})
_scn_fetch = dict(_scn, harness="harness/scn_fetch.c",
                  unit_defines=dict(_scn["unit_defines"], **{"model/wrap/table_abs.c": ["element_table_put=real_element_table_put"]}))
O(id="C01.add_notify", props=["C01", "C11", "C02", "C04"], entry="harness_add_notify", reach=["add_all_healthy", "add_refused", "b_fails"],
  functions=["parse_message", "add_element_to_peer", "init_element", "find_fetchers_for_element", "add_fetch_to_state_and_notify",
             "notify_fetching_peer", "add_fetch_to_peer", "add_fetch_to_states", "create_*_response*"],
  symbolic="state value 0..999, which subscriber's send path fails (none/B/C), whether the path index refuses the insertion",
  assumes=["set-up steps (two fetch-all requests) succeed"], bounds="skeleton: B fetch-all; C fetch-all; A add 'a'; 3 peers, 1 element", **_scn_fetch)
for _rm, _nm in ((0, "change"), (1, "remove")):
    for _no, _who in ((0, "owner"), (1, "other")):
        O(id="C01.%s_by_%s" % (_nm, _who), props=["C01", "C11", "C02", "C04"], entry="harness_change_remove",
          reach=["not_owner"] if _no else ["owner_healthy", "b_fails"],
          defines=(["DO_REMOVE=1"] if _rm else []) + (["NOT_OWNER=1"] if _no else []),
          functions=["change_state" if not _rm else "remove_element_from_peer", "remove_element", "notify_fetchers", "notify_fetching_peer"],
          symbolic="new value, which subscriber's send path fails (none/B/C)",
          assumes=["set-up steps succeed"],
          bounds="skeleton: B fetch-all; C fetch-all; A add 'a'=5; then one %s by %s; 3 peers, 1 element" % (_nm, "the owner A" if not _no else "another peer B"), **_scn_fetch)
for _uf, _nm in ((0, "subscribed"), (1, "unfetched")):
    O(id="C01.fetch_order_" + _nm, props=["C01", "C02"], entry="harness_fetch_order", reach=["unfetched"] if _uf else [],
      defines=["DO_UNFETCH=1"] if _uf else [],
      functions=["parse_message", "add_fetch_to_peer", "add_fetch_to_states", "remove_fetch_from_peer", "remove_fetch_from_states", "change_state"],
      symbolic="state value", assumes=["set-up steps succeed"],
      bounds="skeleton: A add 'a'; B fetch; B fetch same id; %sA change; 2 peers, 1 element" % ("B unfetch; " if _uf else ""), **_scn_fetch)

# ------------------------------------------------------------------------------------------------ C02 dispatcher scenarios
_scn_rpc = dict(_scn, harness="harness/scn_rpc.c")
for _m, _nm in ((0, "info"), (1, "unknown_method"), (2, "error_path")):
    for _si, _sn in ((0, "number"), (1, "string")):
        O(id="C02.id_echo_%s_%s" % (_nm, _sn), props=["C02", "C07"], entry="harness_id_echo", reach=["string_id"] if _si else ["numeric_id"],
          defines=["RPC_METHOD=%d" % _m] + (["STRING_ID=1"] if _si else []),
          functions=["parse_message", "parse_json_rpc", "handle_method", "send_response", "create_common_response", "create_error_response", "create_result_response", "handle_info"],
          symbolic="request id: " + ("a 2-character string with arbitrary first character" if _si else "any finite double, with the int field the JSON number parser derives from it"),
          assumes=["numeric id is finite and |id| < 1e300"], bounds="one request (%s)" % _nm, **_scn_rpc)
for _sh, _nm in ((0, "notification"), (1, "failing_notification"), (2, "stray_result"), (3, "stray_error"), (4, "neither")):
    O(id="C02.no_answer_" + _nm, props=["C02"], entry="harness_no_answer", defines=["SHAPE=%d" % _sh],
      functions=["parse_message", "parse_json_rpc", "handle_routing_response", "send_response", "change_state"],
      symbolic="state value / payload", assumes=["set-up add succeeds"], bounds="skeleton: A add 'a'; one message of the given shape", **_scn_rpc)
O(id="C02.batch_order", props=["C02"], entry="harness_batch", functions=["parse_message", "parse_json_array", "parse_json_rpc"],
  symbolic="state value", assumes=[], bounds="batch of 4: add, change, remove, change(fails)", **_scn_rpc)
for _w, _nm in ((0, "add_bad_access"), (1, "fetch_bad_matcher")):
    O(id="C02.response_ownership_" + _nm, props=["C02", "C07"], entry="harness_response_ownership", defines=["WHICH=%d" % _w],
      functions=["init_element", "fill_access", "create_fetch", "add_matchers", "alloc_fetch", "create_error_response_from_request"],
      symbolic="(none: concrete refusal path, accounting checked)", assumes=[], bounds="one refused request", **_scn_rpc)

# ------------------------------------------------------------------------------------------------ C03 routing scenarios
_scn_route = dict(_scn, harness="harness/scn_route.c",
                  unwindset=dict(_scn["unwindset"], **{"verif_router_snprintf.0": 10, "verif_router_snprintf.1": 5, "answers_to.0": 12, "answer_to.0": 12,
                                                       "do_set.0": 12, "harness_route_faults.0": 7, "harness_caller_leaves.0": 12}),
                  stubs=_SCN_STUBS + ["snprintf in router.c: stand-in for the two id formats (\"%s_%x_%p\", \"%x_%p\")",
                                      "hash of the routing/element tables: low bits of the key hash; free-slot key NULL, result codes renumbered (model/wrap/hash_abs.h)"])
_RF = ["set_or_call", "alloc_routing_request", "create_routed_message", "setup_routing_information", "handle_routing_response",
       "request_timeout_handler", "remove_routing_info_from_peer", "remove_peer_from_routing_table", "clear_routing_entry", "free_peer_resources"]
for _re, _nm in ((0, "result"), (1, "error")):
    O(id="C03.reply_" + _nm, props=["C03", "C02", "C07", "C14"], entry="harness_reply", functions=_RF, defines=["REPLY_ERROR=1"] if _re else [],
      symbolic="set value, reply payload", assumes=["set-up add succeeds"],
      bounds="skeleton: O add 's'; A set; forged reply; foreign reply; O replies with %s; duplicate reply" % _nm, **_scn_route)
O(id="C14.timeout", props=["C14", "C03", "C07"], entry="harness_timeout", functions=_RF, symbolic="set value",
  assumes=["set-up succeeds"], bounds="skeleton: O add 's'; A set; timer expiry; late reply", **_scn_route)
O(id="C03.owner_leaves", props=["C03", "C05", "C07"], entry="harness_owner_leaves", functions=_RF, symbolic="set value",
  assumes=["set-up succeeds"], bounds="skeleton: O add 's'; A set (id 7); C set (no id); O disconnects", **_scn_route)
O(id="C03.bystander_idle", props=["C03", "C05", "C11", "C07"], entry="harness_bystander", functions=_RF, symbolic="set value, reply payload",
  assumes=["set-up succeeds"], bounds="skeleton: O add 's'; A set; idle C disconnects; O replies", **_scn_route)
O(id="C03.bystander_with_request", props=["C03", "C05", "C11", "C07"], entry="harness_bystander", defines=["BYSTANDER_HAS_REQUEST=1"], functions=_RF,
  symbolic="set value, reply payload", assumes=["set-up succeeds"],
  bounds="skeleton: O add 's'; A set; C set; C disconnects; O replies to A", **_scn_route)
O(id="C05.caller_leaves", props=["C05", "C03", "C07"], entry="harness_caller_leaves", functions=_RF, symbolic="set value",
  assumes=["set-up succeeds"], bounds="skeleton: O add 's'; A set; A disconnects; O replies", **_scn_route)
for _f, _nm, _rch in ((0, "none", ["no_fault"]), (1, "owner_send_fails", ["owner_send_fails"]), (2, "timer_init_fails", []), (3, "timer_start_fails", ["timer_start_fails"])):
    O(id="C03.route_fault_" + _nm, props=["C03", "C07", "C11"], entry="harness_route_faults", reach=_rch, functions=_RF, defines=["FAULT=%d" % _f],
      symbolic="set value", assumes=["set-up succeeds"], bounds="skeleton: O add 's'; A set with fault '%s'; remaining timers fire" % _nm, **_scn_route)
O(id="C03.limit", props=["C03", "C07"], entry="harness_limit", reach=["refused_at_limit"], functions=_RF, symbolic="set value",
  assumes=["set-up succeeds"], bounds="five sets in flight to one owner, routing table order 2 (4 slots)", **dict(_scn_route, unwind=8))
