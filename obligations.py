"""Obligation table (see DESIGN.md 1.1). One entry = one goto binary + one CBMC run.

fields: id, props, harness, entry, units (repo sources linked besides what the harness #includes),
model (files of /verif/model linked), defines, include (-include files), unit_defines, config (overrides of the
verification-sized configuration), unwind, unwindset, flags, tier (quick|thorough), timeout,
reach (REACH.* witnesses that must be reported failing besides REACH.end),
functions/symbolic/stubs/assumes/bounds: documentation echoed into the evidence file.
"""

OBLIGATIONS = []
PROPERTY_NOTES = {}


def O(**kw):
    kw.setdefault("tier", "quick")
    OBLIGATIONS.append(kw)
    return kw


# ------------------------------------------------------------------------------------------------ C18
PROPERTY_NOTES["C18"] = {
    "composition": "byte_step is a simulation between is_byte_valid and the RFC 3629 automaton through the abstraction "
                   "alpha, from every invariant state and for all 256 bytes, plus the base case (init = START). The "
                   "byte-wise entry points only iterate that step (checked for 3 symbolic bytes incl. the is_complete "
                   "rule), so their verdict equals the automaton's for every length and every split across calls. "
                   "word32/word64 show that one word from any invariant state equals 4/8 automaton steps; "
                   "auto_aligned ties the front end to the byte-wise verdict for every length<=17 at every alignment.",
    "outside": "texts longer than 17 bytes through the auto-aligned front end (its three sub-calls are covered by the "
               "step/word lemmas, the length arithmetic only up to 17); big-endian hosts.",
}
_c18 = dict(props=["C18"], harness="harness/c18_utf8.c", functions=["is_byte_valid", "cjet_init_checker"],
            stubs=[], assumes=["checker state satisfies the invariant alpha(c) >= 0 (every state reachable from init does: byte_step proves it inductive)"])
O(id="C18.byte_step", entry="harness_step", unwind=2, reach=["mid_sequence", "reject"],
  symbolic="checker state (3 bytes, constrained by the invariant), input byte (all 256)", bounds="none (one step)", **_c18)
O(id="C18.byte_sequence", entry="harness_bytes", unwind=5, reach=["three_bytes_complete"],
  symbolic="checker state, 3 bytes, length 0..3, is_complete, entry point (text/byte)", bounds="<=3 bytes per call",
  **dict(_c18, functions=["cjet_is_byte_sequence_valid", "cjet_is_text_valid", "is_byte_valid"]))
O(id="C18.word32", entry="harness_word32", unwind=6, reach=["word_from_mid_sequence"],
  symbolic="checker state, all 2^32 words, is_complete", bounds="one word",
  **dict(_c18, functions=["cjet_is_word_sequence_valid", "is_byte_valid"]))
O(id="C18.word64", entry="harness_word64", unwind=10,
  symbolic="checker state, all 2^64 words, is_complete", bounds="one word",
  **dict(_c18, functions=["cjet_is_word64_sequence_valid", "is_byte_valid"]))
O(id="C18.word32_pair", entry="harness_word32_pair", unwind=6,
  symbolic="two 32-bit words from the start state, is_complete = true", bounds="two words",
  **dict(_c18, functions=["cjet_is_word_sequence_valid", "is_byte_valid"]))
for _off in range(8):
    O(id="C18.auto_aligned_off%d" % _off, entry="harness_auto", unwind=19, reach=["auto_word_path"],
      defines=["ALEN=17", "AOFF=%d" % _off],
      symbolic="text bytes, length 0..17, is_complete; text in an exact-size heap object at alignment %d" % _off,
      bounds="length <= 17 (one 64-bit word + pre/post bytes); alignment enumerated 0..7 over eight obligations",
      timeout={"quick": 600, "thorough": 1800},
      **dict(_c18, functions=["cjet_is_word_sequence_valid_auto_alligned", "cjet_is_word64_sequence_valid",
                              "cjet_is_byte_sequence_valid", "is_byte_valid"]))

# ------------------------------------------------------------------------------------------------ C17
PROPERTY_NOTES["C17"] = {
    "composition": "Inv (hop bits point to live slots whose home is that bucket; every live slot is announced by its "
                   "home; keys unique; free slots zeroed; hop bits below add_range) holds for the created table and is "
                   "preserved by put/remove from ANY Inv table with ANY hash assignment (step obligations), and on Inv "
                   "tables put/get/remove have exact map semantics for the operated key and an arbitrary other key. By "
                   "induction this holds after every operation sequence. hash_range shows the real hash functions map "
                   "into the table for orders 2..13, which is all the step lemmas use of them.",
    "outside": "table orders >= 4 in quick (order 3 in thorough), hence the production orders 6 and 13 and the "
               "displacement branch find_closer_entry (unreachable below order 6: free_distance < add_range <= 16 < 32); "
               "key universe of 6 keys; single-letter string keys.",
}
_KT = {0: "u32", 1: "u64", 2: "str"}
_MODE = {0: "put", 1: "get", 2: "remove"}
_REACH = {0: ["put_overwrite", "put_insert", "put_full"], 1: ["get_hit", "get_miss"], 2: ["remove_hit", "remove_miss"]}
for _order, _tier in ((2, "quick"), (3, "thorough")):
    for _kt in (0, 1, 2):
        for _mode in (0, 1, 2):
            if _order == 3 and _kt == 2 and _mode != 1:
                continue      # string keys at order 3: put/remove gave no verdict in 50 min (get does): outside the claim
            O(id="C17.step_%s_%s_o%d" % (_MODE[_mode], _KT[_kt], _order), props=["C17"] + (["C04", "C03"] if _kt == 2 and _order == 2 else []),
              harness="harness/c17_hashtable.c", tier=_tier,
              defines=["KT=%d" % _kt, "MODE=%d" % _mode, "ORDER=%d" % _order], unwind=(1 << _order) + 1,
              # per-loop bounds derived from the table geometry: SIZE slots, add_range = SIZE/2, 6 keys
              unwindset={"strcmp.0": 3, "inv.0": (1 << (_order - 1)) + 1, "inv.1": (1 << _order) + 1, "inv.2": (1 << _order) + 1, "inv.3": (1 << _order) + 1,
                         "slot_kidx.0": 7, "alookup.0": (1 << _order) + 1, "harness.0": 7, "harness.1": (1 << _order) + 1, "harness.2": (1 << _order) + 1,
                         "harness.3": (1 << _order) + 1, "hash_func_T_string.0": 3,
                         "hashtable_put_T.0": (1 << (_order - 1)) + 2, "hashtable_put_T.1": (1 << (_order - 1)) + 2, "hashtable_put_T.2": 3,
                         "hashtable_get_T.0": (1 << (_order - 1)) + 2, "hashtable_remove_T.0": (1 << (_order - 1)) + 2,
                         "find_closer_entry_T.0": 1, "find_closer_entry_T.1": 1}, reach=_REACH[_mode],
              functions=["hashtable_%s_T (DECLARE_HASHTABLE_%s)" % (_MODE[_mode], _KT[_kt].upper())],
              symbolic="whole table (hop bitmaps, keys, values), home bucket of each of 6 keys, operated key, observed key, value",
              stubs=["hs_hash32/hs_hash6432shift replaced by an arbitrary function key -> bucket (solver variables)"],
              assumes=["pre-state satisfies the representation invariant Inv (inductive: proved preserved by put/remove)"],
              bounds="order %d (%d slots), 6 keys" % (_order, 1 << _order),
              timeout={"quick": 600, "thorough": 3000},
              label_props={} )
O(id="C17.hash_range", props=["C17"], harness="harness/c17_hashtable.c", entry="harness_hash_range",
  defines=["KT=0", "MODE=0", "ORDER=2"], unwind=2,
  functions=["hs_hash32", "hs_hash6432shift"], symbolic="key (all 2^32 / 2^64), order 2..13", bounds="none",
  stubs=[], assumes=[])

# ------------------------------------------------------------------------------------------------ buffered socket steps (C09 C10 C05 C11)
_bs = dict(harness="harness/bs_steps.c", unwind=8,
           stubs=["socket_writev_with_prefix: accepts any prefix >=1 byte of the gathered buffers, EAGAIN, or EPIPE (symbolic)",
                  "socket_read: delivers 1..count arbitrary bytes, 0 (FIN), EAGAIN or ECONNRESET (symbolic)",
                  "memcpy/memmove: byte-loop stubs (symbolic lengths)", "jet_memmem: reference first-occurrence search (glibc memmem contract)",
                  "log_err: empty"],
           fp_restrict=["error_function.function_pointer_call.1/on_error"],   # (goto-instrument mis-handles restricted calls inside loops: only this non-loop site is restricted)
           config={"CONFIG_MAX_WRITE_BUFFER_SIZE": 4, "CONFIG_MAX_MESSAGE_SIZE": 4})
_bs3 = dict(_bs, unwind=5, config={"CONFIG_MAX_WRITE_BUFFER_SIZE": 4, "CONFIG_MAX_MESSAGE_SIZE": 3},
            unwindset={"get_read_ptr.0": 5, "internal_read_until.0": 5, "verif_memmove.0": 4, "verif_memmove.1": 4, "socket_read.0": 4,
                       "strlen.0": 4, "go_reading.0": 3, "jet_memmem.0": 3, "jet_memmem.1": 4})
_bs4 = dict(_bs, unwind=6, tier="thorough", config={"CONFIG_MAX_WRITE_BUFFER_SIZE": 4, "CONFIG_MAX_MESSAGE_SIZE": 4},
            unwindset={"get_read_ptr.0": 6, "internal_read_until.0": 6, "verif_memmove.0": 5, "verif_memmove.1": 5, "socket_read.0": 5,
                       "strlen.0": 4, "go_reading.0": 3, "jet_memmem.0": 3, "jet_memmem.1": 5})
O(id="C10.writev_step", props=["C10", "C11"], entry="harness_writev", reach=["partial_then_queued", "refused", "hard_error"],
  functions=["buffered_socket_writev", "copy_iovec_to_write_buffer", "copy_single_buffer", "send_buffer"],
  symbolic="pending byte count and write-buffer contents, two frame chunks (lengths 0..2 each, contents), kernel verdict of every write call, tracked stream position",
  assumes=["to_write <= W (representation invariant of the write buffer; proved preserved: C10.pending_count_in_bounds)"],
  bounds="W=4, frame = 2 chunks of <=2 bytes", timeout={"quick": 600, "thorough": 1800}, **_bs)
O(id="C10.flush_step", props=["C10"], entry="harness_flush", reach=["flush_would_block_with_rest"],
  functions=["write_function", "send_buffer"],
  symbolic="pending byte count and contents, kernel verdict of every write call, tracked stream position",
  assumes=["to_write <= W"], bounds="W=4", **_bs)
O(id="C09.read_exact_step", props=["C09", "C06"], entry="harness_read_exactly", reach=["handed_tracked", "partial_then_block"],
  functions=["get_read_ptr", "fill_buffer", "reorganize_read_buffer"],
  symbolic="read/write pointer positions, buffer contents, requested count 1..M+2, every kernel read verdict/amount/bytes, tracked stream position",
  assumes=["read_buffer <= read_ptr <= write_ptr <= read_buffer+M (proved preserved: C09.reader_invariant_preserved)"],
  bounds="M=3", **_bs3)
O(id="C09.read_exact_step_m4", props=["C09", "C06"], entry="harness_read_exactly", reach=["handed_tracked", "partial_then_block"],
  functions=["get_read_ptr", "fill_buffer", "reorganize_read_buffer"],
  symbolic="read/write pointer positions, buffer contents, requested count 1..M+2, every kernel read verdict/amount/bytes, tracked stream position",
  assumes=["read_buffer <= read_ptr <= write_ptr <= read_buffer+M (proved preserved: C09.reader_invariant_preserved)"],
  bounds="M=4", **_bs4)
O(id="C09.read_until_step", props=["C09", "C06", "C13"], entry="harness_read_until", reach=["line_after_read", "line_too_long"],
  functions=["internal_read_until", "fill_buffer", "reorganize_read_buffer"],
  symbolic="read/write pointer positions, buffer contents, every kernel read verdict/amount/bytes, tracked stream position; delimiter CRLF",
  assumes=["read_buffer <= read_ptr <= write_ptr <= read_buffer+M"], bounds="M=3", **_bs3)
O(id="C09.read_until_step_m4", props=["C09", "C06", "C13"], entry="harness_read_until", reach=["line_after_read", "line_too_long"],
  functions=["internal_read_until", "fill_buffer", "reorganize_read_buffer"],
  symbolic="read/write pointer positions, buffer contents, every kernel read verdict/amount/bytes, tracked stream position; delimiter CRLF",
  assumes=["read_buffer <= read_ptr <= write_ptr <= read_buffer+M"], bounds="M=4", mem_gb=28, **_bs4)   # 11.7 M SAT variables: the 10 GB default is too small
_fpc = ["error_function.function_pointer_call.1/closing_error"]
_bs3c = dict({k: v for k, v in _bs3.items() if k != "harness"}, fp_restrict=_fpc)
_bs4c = dict({k: v for k, v in _bs4.items() if k != "harness"}, fp_restrict=_fpc)
for _w, _wn in ((0, "read_exactly"), (1, "read_until"), (2, "readiness_event")):
    for _cfg, _sfx, _m in ((_bs3c, "", 3), (_bs4c, "_m4", 4)):
        O(id="C05.read_after_close_%s%s" % (_wn, _sfx), props=["C05", "C06"], entry="harness_read_after_close",
          harness="harness/c05_read_close.c",
          reach=["closed_in_callback"], defines=["WHICH=%d" % _w],
          functions=["buffered_socket_read_exactly", "buffered_socket_read_until", "read_function", "go_reading", "error_function"],
          symbolic="requested count, kernel read verdicts/bytes, whether each callback closes (and frees) the socket, loop add verdict",
          assumes=["the read callback closes at the latest on its 2nd invocation (bounds the read loop)"],
          bounds="M=%d; entry point %s; heap-allocated socket object really freed by the closing callback" % (_m, _wn), **_cfg)

# ------------------------------------------------------------------------------------------------ linux_io.c leaves (C07 C08 C11)
_lio = dict(harness="harness/linux_io_leaves.c", unwind=34,
            stubs=["close/fcntl/getsockname/setsockopt/accept: symbolic results over a ghost descriptor table",
                   "alloc_jet_peer/buffered_socket_acquire/alloc_http_connection: may return NULL (symbolic)",
                   "buffered_socket_init/init_socket_peer/init_http_connection: record ownership only", "log_err: empty"])
O(id="C07.fd_hygiene_jet", props=["C07"], entry="harness_fd_jet", reach=["jet_established", "jet_setup_failed"],
  functions=["handle_new_jet_connection", "prepare_peer_socket", "set_fd_non_blocking", "configure_keepalive"],
  symbolic="which of fcntl(GET/SET), getsockname, the k-th setsockopt, peer allocation, socket allocation fails; address family",
  assumes=[], bounds="one accepted descriptor", **_lio)
O(id="C07.fd_hygiene_http", props=["C07", "C13"], entry="harness_fd_http", reach=["http_established", "http_setup_failed"],
  functions=["handle_http", "prepare_peer_socket", "set_fd_non_blocking", "configure_keepalive"],
  symbolic="which of fcntl(GET/SET), getsockname, the k-th setsockopt, connection allocation, socket allocation, connection init fails; address family",
  assumes=[], bounds="one accepted descriptor", **_lio)
O(id="C11.accept_errors", props=["C11"], entry="harness_accept", reach=["transient_error", "accepted", "queued_behind_failed_attempt"],
  functions=["accept_common"], symbolic="errno of a failing first accept (all int values) or a successful accept; whether a second connection is queued behind it",
  assumes=[], bounds="up to two queued connection attempts, then EAGAIN", **_lio)
O(id="C08.origin", props=["C08"], entry="harness_origin", reach=["af_unix", "v6_local"],
  functions=["is_localhost"], symbolic="first 32 bytes of the sockaddr_storage (family, port, address)",
  assumes=[], bounds="none", **_lio)

# ------------------------------------------------------------------------------------------------ peer.c / timer / alloc leaves
O(id="C06.log_line", props=["C06"], harness="harness/peer_leaves.c", entry="harness_log_line", reach=["long_name"], unwind=4,
  functions=["log_peer_err", "log_peer_info", "get_peer_name"],
  symbolic="length of the client-chosen peer name 0..130 (as the would-be length returned by snprintf), which log function, one arbitrary written position per formatting call",
  stubs=["snprintf/vsnprintf: C99 contract stubs (write at most size bytes, return the would-be length)", "log_err/log_info: count calls"],
  assumes=[], bounds="peer name <= 130 characters")
O(id="C08.fresh_peer_groups", props=["C08", "C07", "C05", "C15"], harness="harness/peer_leaves.c", entry="harness_fresh_peer",
  reach=["peer_created", "init_failed"], unwind=4, functions=["init_peer", "free_peer_resources", "get_number_of_peers"],
  symbolic="initial (garbage) contents of the three group masks, locality flag, whether the routing table allocation fails",
  stubs=["add_routing_table: may fail (symbolic)", "router/fetch/element teardown functions: empty (covered by C05 scenario obligations)"],
  assumes=[], bounds="one peer")
_tl = dict(harness="harness/timer_leaves.c", unwind=4,
           stubs=["timerfd_create/timerfd_settime/socket_close/socket_read: symbolic results over a ghost descriptor",
                  "event loop add/remove: record the registration, assert the loop object they receive",
                  "create_error_response_from_request: returns a marker object"])
O(id="C07.timer_lifecycle", props=["C07", "C14"], entry="harness_timer_lifecycle", reach=["init_failed", "destroyed"], defines=["NS_BITS=24"],
  functions=["cjet_timer_init", "timer_start", "timer_cancel", "timer_read", "cjet_timer_destroy", "convert_timeoutns_to_itimerspec"],
  symbolic="timerfd_create / loop add / settime failures, deadline in ns (< 2^24 here; all 2^64 in C14.itimerspec_full_range), expiry vs cancel", assumes=[], bounds="one timer", **_tl)
O(id="C14.itimerspec_full_range", props=["C14"], entry="harness_itimerspec", backend="cvc5-int", record=False, defines=["NS_BITS=24"],
  functions=["convert_timeoutns_to_itimerspec"], symbolic="deadline in ns (all 2^64 values)", assumes=[], bounds="none", **_tl)
O(id="C14.timeout_value", props=["C14"], entry="harness_timeout_value", backend="z3", reach=["default_used", "not_a_number", "too_small", "too_large", "accepted"],
  functions=["get_timeout_in_nsec", "convert_seconds_to_nsec"], flags=["--conversion-check"],
  symbolic="presence, JSON type and double value of the timeout member (every non-NaN double incl. infinities), default",
  assumes=["timeout value is not NaN (cJSON's number parser cannot produce one)"], bounds="none", **_tl)
O(id="C14.timeout_huge", props=["C14", "C06"], entry="harness_timeout_huge", flags=["--conversion-check"],
  functions=["get_timeout_in_nsec", "convert_seconds_to_nsec"], symbolic="double value of the timeout member (every non-NaN double)",
  assumes=["timeout value is not NaN"], bounds="none", **_tl)
for _uc, _nm in ((0, "malloc"), (1, "calloc")):
    O(id="C07.alloc_cap_" + _nm, props=["C07", "C15"], harness="harness/alloc_leaves.c", entry="harness_alloc_cap", reach=["allocated", "refused"], unwind=3,
      defines=["USE_CALLOC=1"] if _uc else [],
      drop_flags=["--no-malloc-may-fail"], flags=["--malloc-may-fail", "--malloc-fail-null"],
      functions=["cjet_" + _nm, "cjet_free", "cjet_get_alloc_size"],
      symbolic="accounted total (any value <= cap), request size <= 2^32 (calloc: nmemb,size <= 255), whether the OS allocation fails",
      stubs=["libc malloc/calloc: CBMC model, may return NULL"], assumes=["allocated_memory <= cap before the call (proved preserved)"],
      bounds="malloc request sizes <= 2^32, calloc nmemb,size <= 255; larger sizes (size+8 / nmemb*size wrap) are outside the claim",
      config={"CONFIG_MAX_HEAPSIZE_IN_KBYTE": 20480})

# ------------------------------------------------------------------------------------------------ protocol scenarios (cJSON model)
_PROTO_UNITS = ["src/peer.c", "model/wrap/element_abs.c", "src/fetch.c", "model/wrap/table_abs.c", "src/response.c", "model/wrap/router_abs.c", "src/timer.c",
                "src/groups.c", "src/jet_string.c", "src/linux/jet_string.c", "src/posix/jet_string.c", "src/parse.c", "src/config.c", "src/info.c",
                "src/authenticate.c"]
_SCN_STUBS = ["strcasecmp/strncasecmp/strstr/strcasestr: reference implementations (model/strfn_ref.c)", "cJSON: bounded model (model/cjson_model.c): one heap object per node/string, case-insensitive GetObjectItem, no text rendering",
              "cjet_malloc/cjet_calloc/cjet_free: typed stub over malloc with live-block counter and k-th-allocation failure injection",
              "transport: peer->send_message records the JSON tree being sent; symbolic failing peer / failing send index",
              "cjet_timer_init/destroy/start/cancel: timer model (created/armed/destroyed ghost state)",
              "log_err/log_peer_err/...: empty", "credentials_ok/change_password: not part of these scenarios (return NULL)"]
_scn = dict(units=_PROTO_UNITS, model=["model/cjson_model.c", "model/alloc_stub.c", "model/strfn_ref.c"], include=["model/alloc_macros.h"],
            unit_defines={"src/peer.c": ["log_peer_err=real_log_peer_err", "log_peer_info=real_log_peer_info"]},
            unwind=6, unwindset={"find_closer_entry_route_table.0": 1, "find_closer_entry_route_table.1": 1,
                                 "find_closer_entry_element_table.0": 1, "find_closer_entry_element_table.1": 1, "create_matcher.0": 8, "strcasecmp.0": 24, "strncasecmp.0": 24, "v_prefix.0": 8, "strstr.0": 8, "strcasestr.0": 8, "hash_func_route_table_string.0": 20, "hash_func_element_table_string.0": 8, "strlen.0": 74, "dupstr.0": 74, "ci_eq.0": 24, "strcmp.0": 24, "strncmp.0": 24, "strncpy.0": 74, "cpystr.0": 22},
            flags=["--max-field-sensitivity-array-size", "256"],
            stubs=_SCN_STUBS, config={"CONFIG_ELEMENT_TABLE_ORDER": 2, "CONFIG_ROUTING_TABLE_ORDER": 2, "CONFIG_INITIAL_FETCH_TABLE_SIZE": 2},
            timeout={"quick": 900, "thorough": 3600})
_scn_fetch = dict(_scn, harness="harness/scn_fetch.c",
                  unit_defines=dict(_scn["unit_defines"], **{"model/wrap/table_abs.c": ["element_table_put=real_element_table_put"]}))
O(id="C01.add_notify", props=["C01", "C11", "C02", "C04"], entry="harness_add_notify", reach=["add_all_healthy", "add_refused", "b_fails"],
  functions=["parse_message", "add_element_to_peer", "init_element", "find_fetchers_for_element", "add_fetch_to_state_and_notify",
             "notify_fetching_peer", "add_fetch_to_peer", "add_fetch_to_states", "create_*_response*"],
  symbolic="state value 0..999, which subscriber's send path fails (none/B/C), whether the path index refuses the insertion",
  assumes=["set-up steps (two fetch-all requests) succeed"], bounds="skeleton: B fetch-all; C fetch-all; A add 'a'; 3 peers, 1 element", **_scn_fetch)
for _rm, _nm in ((0, "change"), (1, "remove")):
    for _no, _who in ((0, "owner"), (1, "other")):
        O(id="C01.%s_by_%s" % (_nm, _who), props=["C01", "C11", "C02", "C04"], entry="harness_change_remove",
          reach=["not_owner"] if _no else ["owner_healthy", "b_fails"],
          defines=(["DO_REMOVE=1"] if _rm else []) + (["NOT_OWNER=1"] if _no else []),
          functions=["change_state" if not _rm else "remove_element_from_peer", "remove_element", "notify_fetchers", "notify_fetching_peer"],
          symbolic="new value, which subscriber's send path fails (none/B/C)",
          assumes=["set-up steps succeed"],
          bounds="skeleton: B fetch-all; C fetch-all; A add 'a'=5; then one %s by %s; 3 peers, 1 element" % (_nm, "the owner A" if not _no else "another peer B"), **_scn_fetch)
for _lv, _nm in ((0, "unfetch"), (1, "disconnect")):
    O(id="C01.first_subscriber_leaves_by_" + _nm, props=["C01", "C05"], entry="harness_first_subscriber_leaves",
      defines=["LEAVE_BY_DISCONNECT=1"] if _lv else [],
      functions=["notify_fetchers", "remove_fetch_from_states", "remove_all_fetchers_from_peer", "add_fetch_to_state", "find_fetchers_for_element"],
      symbolic="new state value", assumes=["set-up steps succeed"],
      bounds="skeleton: A add 'a'; B fetch; C fetch; B leaves (%s); A change; A remove; A add again; 3 peers" % _nm, **_scn_fetch)
for _uf, _nm in ((0, "subscribed"), (1, "unfetched")):
    O(id="C01.fetch_order_" + _nm, props=["C01", "C02"], entry="harness_fetch_order", reach=["unfetched"] if _uf else [],
      defines=["DO_UNFETCH=1"] if _uf else [],
      functions=["parse_message", "add_fetch_to_peer", "add_fetch_to_states", "remove_fetch_from_peer", "remove_fetch_from_states", "change_state"],
      symbolic="state value", assumes=["set-up steps succeed"],
      bounds="skeleton: A add 'a'; B fetch; B fetch same id; %sA change; 2 peers, 1 element" % ("B unfetch; " if _uf else ""), **_scn_fetch)

# ------------------------------------------------------------------------------------------------ C02 dispatcher scenarios
_scn_rpc = dict(_scn, harness="harness/scn_rpc.c")
for _m, _nm in ((0, "info"), (1, "unknown_method"), (2, "error_path")):
    for _si, _sn in ((0, "number"), (1, "string")):
        O(id="C02.id_echo_%s_%s" % (_nm, _sn), props=["C02", "C07"], entry="harness_id_echo", reach=["string_id"] if _si else ["numeric_id"],
          defines=["RPC_METHOD=%d" % _m] + (["STRING_ID=1"] if _si else []),
          functions=["parse_message", "parse_json_rpc", "handle_method", "send_response", "create_common_response", "create_error_response", "create_result_response", "handle_info"],
          symbolic="request id: " + ("a 2-character string with arbitrary first character" if _si else "any finite double, with the int field the JSON number parser derives from it"),
          assumes=["numeric id is finite and |id| < 1e300"], bounds="one request (%s)" % _nm, **_scn_rpc)
for _sh, _nm in ((0, "notification"), (1, "failing_notification"), (2, "stray_result"), (3, "stray_error"), (4, "neither")):
    O(id="C02.no_answer_" + _nm, props=["C02"], entry="harness_no_answer", defines=["SHAPE=%d" % _sh],
      functions=["parse_message", "parse_json_rpc", "handle_routing_response", "send_response", "change_state"],
      symbolic="state value / payload", assumes=["set-up add succeeds"], bounds="skeleton: A add 'a'; one message of the given shape", **_scn_rpc)
O(id="C02.batch_order", props=["C02"], entry="harness_batch", functions=["parse_message", "parse_json_array", "parse_json_rpc"],
  symbolic="state value", assumes=[], bounds="batch of 4: add, change, remove, change(fails)", **_scn_rpc)
for _w, _nm in ((0, "add_bad_access"), (1, "fetch_bad_matcher")):
    O(id="C02.response_ownership_" + _nm, props=["C02", "C07"], entry="harness_response_ownership", defines=["WHICH=%d" % _w],
      functions=["init_element", "fill_access", "create_fetch", "add_matchers", "alloc_fetch", "create_error_response_from_request"],
      symbolic="(none: concrete refusal path, accounting checked)", assumes=[], bounds="one refused request", **_scn_rpc)

# ------------------------------------------------------------------------------------------------ C03 routing scenarios
_scn_route = dict(_scn, harness="harness/scn_route.c",
                  unwindset=dict(_scn["unwindset"], **{"verif_router_snprintf.0": 10, "verif_router_snprintf.1": 5, "answers_to.0": 12, "answer_to.0": 12,
                                                       "do_set.0": 12, "harness_route_faults.0": 7, "harness_caller_leaves.0": 12}),
                  stubs=_SCN_STUBS + ["snprintf in router.c: stand-in for the two id formats (\"%s_%x_%p\", \"%x_%p\")",
                                      "hash of the routing/element tables: low bits of the key hash; free-slot key NULL, result codes renumbered (model/wrap/hash_abs.h)"])
_RF = ["set_or_call", "alloc_routing_request", "create_routed_message", "setup_routing_information", "handle_routing_response",
       "request_timeout_handler", "remove_routing_info_from_peer", "remove_peer_from_routing_table", "clear_routing_entry", "free_peer_resources"]
for _re, _nm in ((0, "result"), (1, "error")):
    O(id="C03.reply_" + _nm, props=["C03", "C02", "C07", "C14"], entry="harness_reply", functions=_RF, defines=["REPLY_ERROR=1"] if _re else [],
      symbolic="set value, reply payload", assumes=["set-up add succeeds"],
      bounds="skeleton: O add 's'; A set; forged reply; foreign reply; O replies with %s; duplicate reply" % _nm, **_scn_route)
O(id="C03.reply_caller_unreachable", props=["C03", "C11", "C07"], entry="harness_reply_caller_unreachable", functions=_RF,
  symbolic="set value, reply payload", assumes=["set-up succeeds"],
  bounds="skeleton: O add 's'; A set; C set; A's send path fails; O replies to A, then to C", **_scn_route)
for _et, _rt, _nm in ((0, 0, "default"), (1, 0, "element"), (1, 7500, "request_larger_than_element"), (1, 250, "request_smaller_than_element"), (0, 30000, "request_only")):
    O(id="C14.precedence_" + _nm, props=["C14", "C03"], entry="harness_deadline_precedence", functions=_RF + ["get_timeout_in_nsec", "init_element"],
      defines=["ELEMENT_TIMEOUT=%d" % _et, "REQUEST_TIMEOUT_MS=%d" % _rt],
      symbolic="set value (timeouts fixed per obligation: element %s, request %s)" % ("2 s" if _et else "none", ("%d ms" % _rt) if _rt else "none"),
      assumes=["set-up succeeds"], bounds="skeleton: O add 's' [timeout]; A set [timeout]", **_scn_route)
O(id="C14.timeout", props=["C14", "C03", "C07"], entry="harness_timeout", functions=_RF, symbolic="set value",
  assumes=["set-up succeeds"], bounds="skeleton: O add 's'; A set; timer expiry; late reply", **_scn_route)
O(id="C03.owner_leaves", props=["C03", "C05", "C07"], entry="harness_owner_leaves", functions=_RF, symbolic="set value",
  assumes=["set-up succeeds"], bounds="skeleton: O add 's'; A set (id 7); C set (no id); O disconnects", **_scn_route)
O(id="C03.bystander_idle", props=["C03", "C05", "C11", "C07"], entry="harness_bystander", functions=_RF, symbolic="set value, reply payload",
  assumes=["set-up succeeds"], bounds="skeleton: O add 's'; A set; idle C disconnects; O replies", **_scn_route)
O(id="C03.bystander_with_request", props=["C03", "C05", "C11", "C07"], entry="harness_bystander", defines=["BYSTANDER_HAS_REQUEST=1"], functions=_RF,
  symbolic="set value, reply payload", assumes=["set-up succeeds"],
  bounds="skeleton: O add 's'; A set; C set; C disconnects; O replies to A", **_scn_route)
O(id="C05.caller_leaves", props=["C05", "C03", "C07"], entry="harness_caller_leaves", functions=_RF, symbolic="set value",
  assumes=["set-up succeeds"], bounds="skeleton: O add 's'; A set; A disconnects; O replies", **_scn_route)
for _f, _nm, _rch in ((0, "none", ["no_fault"]), (1, "owner_send_fails", ["owner_send_fails"]), (2, "timer_init_fails", []), (3, "timer_start_fails", ["timer_start_fails"])):
    O(id="C03.route_fault_" + _nm, props=["C03", "C07", "C11"], entry="harness_route_faults", reach=_rch, functions=_RF, defines=["FAULT=%d" % _f],
      symbolic="set value", assumes=["set-up succeeds"], bounds="skeleton: O add 's'; A set with fault '%s'; remaining timers fire" % _nm, **_scn_route)
O(id="C03.limit", props=["C03", "C07"], entry="harness_limit", reach=["refused_at_limit"], functions=_RF, symbolic="set value",
  assumes=["set-up succeeds"], bounds="five sets in flight to one owner, routing table order 2 (4 slots)", **dict(_scn_route, unwind=8))

# ------------------------------------------------------------------------------------------------ C16 matchers
PROPERTY_NOTES["C16"] = {
    "composition": "match: each of the twelve match functions equals a byte-wise reference predicate for all paths and operands of "
                   "<= 3 bytes over the full byte range (ASCII case folding only for A-Z/a-z). conjunction: state_matches is the "
                   "AND of the installed matchers, and a fetch without rule selects everything. rule parsing (which matcher "
                   "name/operand type installs which function, refusals, repeated option key) is checked on the real "
                   "create_fetch through the dispatcher in the C16.rule_* scenario obligations.",
    "outside": "strings longer than 3 bytes; glibc's own strcasecmp/strcasestr/strstr (reference implementations stand in for "
               "them: the obligation checks cjet's use of them - argument order, length arithmetic); locales other than \"C\".",
}
O(id="C16.match_functions", props=["C16"], harness="harness/c16_match.c", entry="harness_match", reach=["long_path"], unwind=6,
  functions=["equals_match", "equalsnot_match", "startswith_match", "endswith_match", "contains_match", "containsallof_match", "and the six *_ignore_case variants"],
  symbolic="path, operand and second operand: each 0..3 arbitrary non-NUL bytes",
  stubs=["strlen/strcmp/strncmp/strstr/strcasecmp/strncasecmp/strcasestr: reference implementations (C locale)"],
  assumes=[], bounds="strings <= 3 bytes", timeout={"quick": 900, "thorough": 3600}, flags=["--no-bounds-check"])
O(id="C16.conjunction", props=["C16"], harness="harness/c16_match.c", entry="harness_conjunction", reach=["fetch_all"], unwind=5,
  functions=["state_matches"], symbolic="number of matchers 1..3, verdict of each matcher, fetch-all marker",
  stubs=["match functions: return symbolic verdicts"], assumes=["a fetch without rule has one empty matcher slot (alloc_fetch(…, 1, …))"], bounds="<= 3 matchers", flags=["--no-bounds-check"])
_scn_rule = dict(_scn, harness="harness/scn_rule.c", flags=_scn["flags"] + ["--no-bounds-check"])
_RULES = [(0, "equals", "a", ["matched"]), (0, "equals", "A", ["not_matched"]), (1, "equals_ci", "A", ["matched"]), (1, "equals_ci", "z", ["not_matched"]),
          (2, "two_matchers", "a", ["not_matched"]), (3, "unknown_name", "a", ["refused"]), (4, "wrong_type", "a", ["refused"]),
          (5, "repeated_option", "A", []), (6, "too_many", "a", ["refused"]), (7, "contains_all_of", "a", ["matched"]), (7, "contains_all_of", "z", ["not_matched"]),
          (8, "equals_not_and_contains", "z", ["matched"]), (8, "equals_not_and_contains", "a", ["not_matched"]), (9, "only_options", "a", [])]
for _r, _nm, _op, _rch in _RULES:
    O(id="C16.rule_%s_%s" % (_nm, _op), props=["C16", "C06", "C01"], entry="harness_rule", reach=_rch, defines=["RULE=%d" % _r, "OPCHAR='%s'" % _op],
      functions=["add_fetch_to_peer", "create_fetch", "add_matchers", "create_matcher", "fill_path_elements", "alloc_fetch", "state_matches", "add_fetch_to_states", "notify_fetchers"],
      symbolic="state value carried by the events (operand byte '%s' fixed per obligation)" % _op, assumes=["set-up add of 'ab' succeeds"],
      bounds="skeleton: A add 'ab'; B fetch with rule shape '%s' and operand byte '%s'; A change 'ab'; struct-hack arrays: --no-bounds-check (object bounds still checked)" % (_nm, _op), **_scn_rule)

# ------------------------------------------------------------------------------------------------ websocket.c leaves (C12 C06 C10 C05)
_ws = dict(harness="harness/ws_leaves.c", units=["src/compression.c", "src/utf8_checker.c", "src/linux/jet_endian.c"], unwind=8,
           unwindset={"strlen.0": 24, "frame_rules.0": 8, "ws_writev.0": 16, "cjet_is_byte_sequence_valid.0": 8},
           stubs=["buffered reader of the connection: read_exactly/read_until record (count, callback); writev records the frame (header bytes, payload pointer/length)",
                  "free_connection: marks the connection released (any later read/write through it is a violation)",
                  "application callbacks: record invocation, return a symbolic verdict", "http_parser_execute, SHA1*, log_*: inert",
                  "zlib inflate/deflate: unreachable (compression level 0, as in the daemon)"])
O(id="C12.frame_rules", props=["C12", "C06"], entry="harness_frame_rules",
  reach=["rsv", "big_control", "ping", "close_ok", "stray_continuation", "continuation", "text", "first_fragment"],
  functions=["ws_handle_frame", "handle_error", "websocket_close", "is_status_code_invalid", "send_frame", "text_received_comp", "text_frame_received_comp", "binary_received_comp", "binary_frame_received_comp"],
  symbolic="FIN, RSV (0..7), opcode (0..15), fragmentation state (in progress, text/binary), payload length 0..6 or 126, payload bytes, application callback verdict",
  assumes=["fragmentation state is consistent (is_fragmented <=> frag_opcode in {text,binary}): established by websocket_init and preserved (C12.fragmentation_* labels)"],
  bounds="payload <= 6 bytes (exact-size heap object) or the abstract length 126 for the control-frame limit", **_ws)
O(id="C18.close_reason", props=["C18", "C12", "C06"], entry="harness_close_reason", reach=["malformed", "wellformed_accepted"],
  functions=["ws_handle_frame (close frame)", "cjet_init_checker", "cjet_is_byte_sequence_valid", "is_byte_valid", "is_status_code_invalid", "handle_error", "websocket_close"],
  symbolic="status code (both bytes), reason length 1..6, every reason byte, fragmentation state, callback set",
  assumes=["fragmentation state is consistent, as C12.frame_rules"],
  bounds="reason <= 6 bytes (one four-byte sequence plus two bytes); longer reasons go through the same byte loop, whose step is C18.byte_step",
  **dict(_ws, unwindset={"strlen.0": 24, "ws_writev.0": 16, "cjet_is_byte_sequence_valid.0": 8, "harness_close_reason.0": 10, "harness_close_reason.1": 8}))
O(id="C18.close_reason_len12", props=["C18", "C12", "C06"], entry="harness_close_reason", reach=["malformed", "wellformed_accepted"], tier="quick", defines=["MAXREASON=12"],
  functions=["as C18.close_reason"], symbolic="as C18.close_reason, reason length 1..12", assumes=["as C18.close_reason"], bounds="reason <= 12 bytes",
  **dict(_ws, unwind=16, unwindset={"strlen.0": 24, "ws_writev.0": 16, "cjet_is_byte_sequence_valid.0": 14, "harness_close_reason.0": 16, "harness_close_reason.1": 14}))
O(id="C06.ws_daemon_callbacks", props=["C06", "C12"], entry="harness_daemon_callbacks", reach=["daemon_fragment", "binary_unsupported", "text"],
  functions=["ws_handle_frame (callback set of websocket_peer.c: text_message, close, pong)"],
  symbolic="as C12.frame_rules", assumes=["as C12.frame_rules"], bounds="as C12.frame_rules", **_ws)
O(id="C12.header_machine", props=["C12", "C09"], entry="harness_header_machine", reach=["len16", "len64", "masked_short"],
  functions=["ws_get_header", "ws_get_first_length", "read_mask_or_payload", "ws_get_payload"], symbolic="both header bytes (all 65536)", assumes=[], bounds="none", **_ws)
O(id="C12.ext_length", props=["C12", "C09"], entry="harness_ext_length", reach=["payload_requested"],
  functions=["ws_get_length16", "ws_get_length64", "ws_get_mask"], symbolic="8 length bytes, 16/64-bit form, 4 mask bytes", assumes=[], bounds="none", **dict(_ws, unwind=10))
O(id="C05.ws_header_eof", props=["C05", "C12"], entry="harness_header_eof",
  functions=["ws_get_header", "ws_get_first_length", "ws_get_length16", "ws_get_length64", "ws_get_mask", "ws_get_payload"],
  symbolic="the frame phase in which the peer's FIN arrives", assumes=[], bounds="none", **_ws)
O(id="C12.payload_step", props=["C12"], entry="harness_payload_step", reach=["unmasked"],
  functions=["ws_get_payload", "unmask_payload", "ws_handle_frame"], symbolic="mask bit, mask, 3 payload bytes", assumes=[], bounds="3-byte text frame", **_ws)
for _off in range(8):
    O(id="C12.unmask_off%d" % _off, props=["C12", "C06"], entry="harness_unmask", reach=["word_path"], defines=["AOFF=%d" % _off, "ULEN=24"],
      functions=["unmask_payload"], symbolic="payload bytes, length 0..24, mask, observed index; exact-size heap object at alignment %d" % _off,
      assumes=[], bounds="length <= 24 (up to three 64-bit words + pre/post bytes at every alignment); alignment enumerated over eight obligations",
      **dict(_ws, unwind=6, unwindset={"unmask_payload.0": 9, "unmask_payload.1": 10, "unmask_payload.2": 9, "unmask_payload.3": 5, "unmask_payload.4": 9}))
O(id="C12.send_frame", props=["C12", "C10"], entry="harness_send_frame", reach=["len16", "len64"],
  functions=["send_frame"], symbolic="payload length 0..2^32-1, opcode in {text, binary, ping, pong}", assumes=[], bounds="payload abstract (pointer identity)", **dict(_ws, unwind=16))
O(id="C12.close_frame", props=["C12"], entry="harness_close_frame", functions=["websocket_close", "websocket_send_close_frame"],
  symbolic="status code 1000..4999", assumes=[], bounds="none", **dict(_ws, unwind=16))

# ================================================================================================ per-property notes (evidence + manifest)
_BMC = ("Bounded model checking with CBMC of the real functions the property's anchors name: every listed assertion is decided by the SAT/SMT "
        "back end for all values of the symbolic variables inside the stated bounds (unwinding assertions on), each obligation carries "
        "reachability witnesses that must fail, and a counterexample is only reported after it reproduced in a native ASan/UBSan build "
        "of the same harness and sources. This is the right level because the property quantifies over inputs/faults/histories that "
        "tests can only sample, while the mechanisms are bounded integer/pointer/state-machine code; it is NOT a proof of the whole-system "
        "statement: the composition of obligations is a prose argument (level_note).")
PROPERTY_NOTES.setdefault("C17", {}); PROPERTY_NOTES.setdefault("C18", {}); PROPERTY_NOTES.setdefault("C16", {})
PROPERTY_NOTES.update({
 "C01": {"composition": "Subscription invariant J: fetch f is in element e's fetcher table exactly once iff f matches e.path and has access. "
         "add_notify / change_by_* / remove_by_* / fetch_order_* / C16.rule_* run each protocol step (add, change, remove, fetch, unfetch) "
         "from a concrete small state with symbolic values and symbolic failing subscriber and check: exactly one add/change/remove event "
         "per subscribed fetch with the current value and the fetch id, none for refused or foreign requests, none after unfetch, adds "
         "before the fetch response, no add for an element that does not come to exist. Each step re-establishes J, so the replica is "
         "exact at every quiescent point by induction over the history.",
         "outside": "more than 3 peers / 1 element / 2 fetches per skeleton; both transports (the transport is a recording stub); interleavings with "
         "disconnects (teardown steps are C05/C03 obligations); get; fetch table growth beyond the initial size."},
 "C02": {"composition": "Every message goes through the real parse_message -> parse_json_rpc -> handle_method -> send_response chain: "
         "id_echo_* (every numeric id incl. fractional/out-of-int-range, every string first byte; success, unknown method and error paths), "
         "no_answer_* (notifications, failing notifications, stray result/error objects, malformed objects), batch_order (4-member batch "
         "processed sequentially, one response each, in order), response_ownership_* (an overwritten error response is not leaked). "
         "The scenario obligations of C01/C03/C16 additionally assert 'exactly one response to the requester, result xor error' on every handler they drive.",
         "outside": "the JSON text level (parsing/rendering is the third-party library, replaced by a tree model); ids of other JSON types "
         "(object/array/bool/null ids are refused by create_common_response: not driven); batches longer than 4."},
 "C03": {"composition": "reply_*: a routed set is delivered once to the owner only with path and value unchanged under a fresh id, forged ids and "
         "replies from other peers are ignored, the owner's result/error payload reaches the caller exactly once under the caller's id, a "
         "duplicate reply is discarded; C14.timeout: expiry answers once, late reply discarded; owner_leaves: shutdown error once, id-less "
         "caller gets nothing; bystander_*: a third peer's disconnect (idle or with its own request in flight) does not change A's outcome; "
         "route_fault_*: owner's send failing / timer creation or start failing give exactly one error answer and leave nothing registered; "
         "limit: beyond the table the request is refused immediately, routed ids differ. C17 (string tables) gives the map semantics of the routing index.",
         "outside": "routing table order 2 only; one owner; call (methods) shares set's code path except argument naming (not driven separately); "
         "real timers (timer model: created/armed/fired/destroyed); ids as text (snprintf stand-in for the two formats)."},
 "C04": {"composition": "The path index is an exact finite map (C17, string tables, shared obligations). add_notify: add succeeds iff the element "
         "now exists, refused when the index refuses; change_by_*/remove_by_*: only the owner may change/remove, a refused request or one "
         "answered with an error leaves the element and its value unchanged, the owner's request takes effect even if a subscriber cannot "
         "be notified. C03 obligations cover the set/call type and routing checks' outcomes for states.",
         "outside": "arbitrary path strings (paths are short constants; the table hash is abstracted, collisions are C17's subject); "
         "set on methods / call on states / fetch-only refusal are simple guards read but not driven; get."},
 "C05": {"composition": "read_after_close_*: once a read callback or the error callback released the socket object, the read loop does not touch it "
         "(heap object really freed; every entry point; arbitrary buffer state). ws_header_eof: a FIN in any WebSocket frame phase closes with "
         "1001 and releases the connection once; ws obligations assert no read/write after release. owner_leaves / caller_leaves / bystander_*: "
         "free_peer_resources removes owned elements, answers routed callers with an error, purges the leaving peer's own requests from other "
         "tables, leaves other peers' requests alone, destroys timers, and nothing is sent through a released transport (dead_peer check). "
         "fresh_peer_groups: peer count and list back to baseline.",
         "outside": "the WebSocket teardown order (connection freed before the peer bookkeeping, websocket.c handle_error/websocket_close + "
         "websocket_peer.c) is NOT covered by an obligation yet: known risk F-C05a in DESIGN.md; HTTP-phase ends; buffered output at close."},
 "C06": {"composition": "Memory-safety obligations: CBMC's pointer/bounds/deallocated-object checks over the real parsers and state machines with "
         "symbolic input in exact-size heap objects: reader steps (read_exact/read_until), log_line (client-chosen peer name), ws frame rules "
         "with the daemon's callback set (no unset callback is ever called), unmask at all alignments, rule parsing with repeated option keys, "
         "timeout values of any magnitude (no undefined float-to-integer conversion).",
         "outside": "the third-party JSON parser (cJSON.c) and http_parser.c on raw bytes (not encoded: recursion/2.5 kLOC state machine); "
         "the JSON text contract of parse_message (string API on a non-terminated buffer, see DESIGN.md F-C09a); linux_io.c beyond its leaves."},
 "C07": {"composition": "alloc_cap_*: accounting never exceeds the cap and free returns exactly what was accounted (one step from any accounted total). "
         "fd_hygiene_*: on every set-up failure combination the accepted descriptor is closed exactly once, on success it is owned and open. "
         "timer_lifecycle: timerfd closed and deregistered on destroy and when init fails, loop add/remove receive the loop object. "
         "Routing scenarios: every request timer is destroyed on reply, timeout, both disconnect directions, set-up failure and at the limit; "
         "routing records released. C02 scenarios: request and response objects released after each request.",
         "outside": "SIGTERM shutdown of the assembled daemon; HTTP connections that never upgraded; descriptor table of the real process."},
 "C08": {"composition": "fresh_peer_groups: a new peer holds no groups whatever the allocator handed out. origin: loopback v4/v6/mapped-v4 and "
         "AF_UNIX are local, everything else is not. (auth/group-bit obligations: see C08.* scenario obligations when present.)",
         "outside": "credential files, authenticate sequences and per-element access checks are not yet driven by an obligation."},
 "C09": {"composition": "read_exact_step / read_until_step: from ANY buffer state satisfying read_buffer <= read_ptr <= write_ptr <= end, one reader call "
         "with an arbitrary kernel (any amount, EAGAIN, FIN, error, any bytes) hands out exactly the next n stream bytes (tracked-byte "
         "technique), loses/duplicates none, keeps the invariant, reports too-much-data iff the request cannot fit; one step from the "
         "invariant covers every segmentation. header_machine / ext_length: the frame header reads request exactly the RFC 6455 field sizes.",
         "outside": "M = 3 (quick) / 4 (thorough) byte buffers; equality of full daemon output across segmentations (needs reader x handlers); "
         "the JSON parser reading beyond the message (string API, DESIGN.md F-C09a); epoll batching."},
 "C10": {"composition": "writev_step: from any pending buffer, one gathered write of a 2-chunk frame with an arbitrary kernel: accepted frames are "
         "fully sent-or-queued in order after the old pending bytes; flush_step: writability events conserve bytes and order, report a hard "
         "error once, never spin; send_frame: one frame = one gathered write with a correct minimal header.",
         "outside": "W = 4; frames of 2 chunks <= 2 bytes; 'never blocks' in the OS sense; the raw 4-byte length header (socket_peer.c send_message) is read, not driven."},
 "C11": {"composition": "add_notify / change_by_owner / remove_by_owner: with any one subscriber's send path failing, every other subscriber still gets "
         "its event exactly once and the requester's operation takes effect and is answered once. accept_errors: every errno accept(2) "
         "documents as transient keeps the event loop running. writev_step: a failed send never closes the receiving peer. "
         "route_fault_owner_send_fails / bystander_*: routed requests of other peers are unaffected.",
         "outside": "relative ('same history with healthy peers') comparison as a 2-safety property; garbage traffic beyond C06/C12."},
 "C12": {"composition": "header_machine + ext_length + payload_step: the frame header state machine decodes FIN/RSV/opcode/MASK and the three length "
         "encodings as RFC 6455 5.2 prescribes and refuses unmasked client frames with 1002. frame_rules: for every (FIN, RSV, opcode, "
         "fragmentation state, length class) the outcome equals the RFC table (deliver / pong with identical payload / close 1002, 1003, 1007 / "
         "normal close), close codes per 7.4.1. unmask_off*: unmasking is xor with mask[i mod 4] at every alignment, nothing outside the "
         "payload written. send_frame / close_frame: server frames are FIN, unmasked, minimally length-encoded.",
         "outside": "the accept digest (SHA-1 over symbolic input: hashing loop, not encoded); upgrade header rules; 'same JSON-RPC behaviour as "
         "raw transport' (both call parse_message: read, not checked); payloads > 6 bytes except the 125/126 boundary; permessage-deflate."},
 "C13": {"composition": "read_until_step: request/header lines are delivered exactly up to CRLF, over-long lines end in too-much-data (connection "
         "closed by the error path); fd_hygiene_http: every set-up failure of an accepted HTTP connection closes the descriptor once.",
         "outside": "the request-line callback creating the peer before validation (DESIGN.md F-C13a) has no obligation yet; http_parser.c."},
 "C14": {"composition": "timeout_value: for every double and JSON type the request/element/default precedence, the 1 ms lower bound, the uint64 upper "
         "bound and the seconds->ns conversion hold (z3 back end); timeout_huge: no undefined conversion; itimerspec_full_range: every 64-bit "
         "deadline splits into sec/nsec correctly (cvc5 integer encoding); timer_lifecycle: one-shot, cancel reports cancellation; "
         "C14.timeout / C03.reply_*: default deadline used, expiry answers once, a late reply is discarded, reply cancels and destroys the timer.",
         "outside": "'no earlier than the deadline' (kernel timerfd semantics); reply and expiry harvested in the same epoll batch (stale event in "
         "the batch, DESIGN.md F-C14b) has no obligation yet."},
 "C15": {"composition": "alloc_failure_<handler>_k<n>: for each of the nine request types (add, fetch, change, remove, unfetch, set, get, config, info) and "
         "each allocation attempt n of the fault-free request (daemon allocations and the JSON library's per-node / per-string allocations alike, "
         "counted by the shared allocator stub; the count N is asserted), the real dispatcher and handler run with exactly that attempt failing: "
         "no invalid memory access (CBMC pointer checks on the real code), at most one response and it has result xor error, an error answer "
         "leaves the element/value unchanged, and after both peers disconnect the live-block count is back at its baseline (no leak). "
         "alloc_cap_*: a refused allocation accounts nothing; fresh_peer_groups: a failed peer initialisation leaves no peer behind.",
         "outside": "the failing attempt is enumerated by the runner (one obligation per attempt), not a solver variable: a symbolic index made every "
         "allocation site fork and gave no verdict in 400 s even for a window of 4; only the data is symbolic. Multi-fault runs; teardown paths "
         "under failure; websocket/http peer creation; failures inside the real cJSON (the model allocates at the same granularity)."},
})
for _p in ("C01", "C02", "C03", "C04", "C05", "C06", "C07", "C08", "C09", "C10", "C11", "C12", "C13", "C14", "C15", "C16", "C17", "C18"):
    PROPERTY_NOTES[_p]["level_text"] = _BMC


# ================================================================================================ assertions that bear on a second property
def _also(prefix_or_ids, props):
    for o in OBLIGATIONS:
        if any(o["id"] == x or o["id"].startswith(x) for x in prefix_or_ids):
            o["also_for"] = sorted(set(o.get("also_for", []) + props))
            for p in props:
                if p not in o["props"]:
                    o["props"].append(p)

_also(["C09.read_until_step", "C07.fd_hygiene_http"], ["C13"])                 # request/header line reader; HTTP connection set-up
_also(["C09.read_exact_step", "C09.read_until_step", "C05.read_after_close", "C12.unmask_off", "C12.frame_rules", "C12.header_machine",
       "C12.ext_length", "C12.payload_step", "C14.timeout_huge", "C16.rule_repeated_option", "C16.rule_only_options"], ["C06"])   # memory safety / UB on hostile input
_also(["C17.step_put_str_o2", "C17.step_get_str_o2", "C17.step_remove_str_o2"], ["C04", "C03"])   # path index / routing index are string tables
_also(["C07.alloc_cap_"], ["C15"])
_also(["C03.bystander_", "C03.route_fault_owner_send_fails"], ["C11"])
_also(["C03.reply_caller_unreachable"], ["C03", "C11"])
_also(["C12.send_frame"], ["C10"])
_also(["C05.ws_header_eof"], ["C12"])

# ------------------------------------------------------------------------------------------------ C15 single allocation failure
_scn_alloc = dict(_scn, harness="harness/scn_alloc.c", flags=_scn["flags"] + ["--no-bounds-check"],
                  unwindset=dict(_scn["unwindset"], **{"harness_alloc_failure.0": 12, "harness_alloc_failure.1": 12, "verif_router_snprintf.0": 10, "verif_router_snprintf.1": 5}))
# (handler, number of allocation attempts of the fault-free request: measured with the native build, asserted by
#  C15.failure_injected_as_planned in every obligation)
_STEPS = [(0, "add", 11), (1, "fetch", 27), (2, "change", 25), (3, "remove", 23), (4, "unfetch", 6), (5, "set", 16), (6, "get", 14), (7, "config", 7), (8, "info", 24),
          (9, "fetch_grow", 28),     # the third subscription to an element: its subscription table (initially 2 slots) has to grow
          (10, "reply", 7)]          # the owner's reply to a routed request: the relayed answer for the caller is built under allocation failure
for _s, _nm, _n in _STEPS:
    for _k in range(_n + 1 + 3):      # 3 spare attempts: a tree whose request allocates a little more is still covered attempt by attempt
        O(id="C15.alloc_failure_%s_k%02d" % (_nm, _k), props=["C15", "C06", "C07"], entry="harness_alloc_failure",
          defines=["STEP=%d" % _s, "KBASE=%d" % _k, "NALLOC=%d" % _n],
          functions=["parse_message", "handle_method", "send_response", "the handler of '%s' and everything it calls" % _nm, "free_peer_resources"],
          symbolic="state value (the failing allocation attempt, #%d of %d, is fixed per obligation: %s)" % (_k, _n, "fault-free run" if _k >= _n else "daemon or JSON-library allocation"),
          assumes=["set-up requests succeed (no fault)"],
          bounds="one '%s' request in which allocation attempt %d fails, then a fault-free change, then both peers disconnect; 2 peers, <= 1 element, <= 3 fetches" % (_nm, _k),
          **_scn_alloc)
_also(["C15.alloc_failure_"], ["C06"])

# ------------------------------------------------------------------------------------------------ C08 / C20 authentication, access, password change
_scn_auth = dict(_scn, harness="harness/scn_auth.c", flags=_scn["flags"] + ["--no-bounds-check"],
                 unwindset=dict(_scn["unwindset"], **{"verif_crypt.0": 14, "verif_write.0": 9, "maybe_crash.0": 9, "clear_password.0": 14,
                                                      "get_groups.0": 4, "get_groups.1": 4, "is_in_groups.0": 4, "add_groups.0": 4, "fill_salt.0": 18,
                                                      "get_salt_from_passwd.0": 6, "verif_router_snprintf.0": 10, "verif_router_snprintf.1": 5, "strcat.0": 24, "strchr.0": 24, "write_user_data.0": 7,
                                                      "harness_crash_atomic.0": 4, "verif_ftruncate.0": 9, "cJSON_GetObjectItem.0": 12}),
                 stubs=_SCN_STUBS + ["crypt: injective model crypt(pw, salt) = \"H\" ++ pw", "ftruncate/lseek/write: 8-byte file model with symbolic error / short-write outcomes and a symbolic crash point",
                                     "cJSON_Print of the database: returns the fixed new content \"NEW\"", "cjet_get_random_bytes: fixed bytes",
                                     "credential database installed directly (load_passwd_data's open/mmap/parse are not modelled)"])
_AF = ["handle_authentication", "credentials_ok", "clear_password", "get_groups", "has_access", "handle_change_password", "change_password", "is_admin", "is_readonly",
       "get_salt_from_passwd", "fill_salt", "write_user_data"]
for _c, _nm in ((0, "right_password"), (1, "wrong_password"), (2, "unknown_user"), (3, "missing_password"), (4, "other_user")):
    O(id="C08.auth_" + _nm, props=["C08", "C02"], entry="harness_auth_step", defines=["AUTHCASE=%d" % _c], functions=_AF,
      symbolic="(concrete credentials per obligation; group masks and the password buffer are checked)", assumes=[],
      bounds="database of 10 users / 3 groups; one authenticate request (%s)" % _nm, **_scn_auth)
O(id="C08.reauth", props=["C08", "C07"], entry="harness_reauth", functions=_AF, symbolic="(concrete sequence)", assumes=[],
  bounds="authenticate u1 (ok), u2 (bad password), u2 (ok); then disconnect", **_scn_auth)
for _c, _nm in ((0, "member"), (1, "other_group"), (2, "unauthenticated")):
    O(id="C08.visibility_" + _nm, props=["C08"], entry="harness_visibility", defines=["VISCASE=%d" % _c],
      functions=_AF + ["add_fetch_to_state_and_notify", "set_or_call", "fill_access", "get_elements"],
      symbolic="state value", assumes=["set-up requests succeed"],
      bounds="state 's' with fetchGroups/setGroups [g1]; peer P1 is %s; fetch-all, add, set, get" % _nm, **_scn_auth)
for _c, _nm, _rch in ((0, "unauthenticated", ["refused"]), (1, "own_account", ["changed"]), (2, "foreign_account", ["refused"]), (3, "admin", ["changed"]),
                      (4, "readonly_account", ["refused"]), (5, "unknown_account", ["refused"])):
    O(id="C20.passwd_" + _nm, props=["C20", "C08", "C02"], entry="harness_passwd", defines=["PWCASE=%d" % _c], reach=_rch, functions=_AF,
      symbolic="(concrete requester/target per obligation)", assumes=["the requester's own authentication succeeds where the case needs it"],
      bounds="database of 10 users; one passwd request (%s); file writes complete" % _nm, **_scn_auth)
O(id="C20.crash_atomic", props=["C20"], entry="harness_crash_atomic", reach=["completed", "crashed", "failed"], functions=["write_user_data"],
  symbolic="ftruncate failure, outcome of each write call (error / short by 1..3 bytes / complete / for the first two calls also: nothing written, return 0), crash point after any of the first 9 file-system calls",
  assumes=[], bounds="old content 4 bytes, new content 3 bytes, <= 5 write calls", **_scn_auth)
PROPERTY_NOTES["C20"] = {
    "composition": "passwd_*: through the real dispatcher, handle_change_password and change_password, a password change is carried out iff the "
                   "requester is authenticated and the target exists, is not read-only and is the requester's own account or the requester is "
                   "admin; a refused change leaves database and file untouched; after an accepted change the new password authenticates and the "
                   "old one does not (injective crypt model) and the file holds the new serialisation. crash_atomic: write_user_data under every "
                   "ftruncate/write outcome (error, short write, complete) and every crash point between its file-system calls: a completed "
                   "update leaves exactly the new content; the file must hold the old or the new content at the crash point.",
    "outside": "real crypt(3) and salts; loading the file (open/mmap/parse); the serialised text (fixed 3-byte stand-in); more than 3 write calls.",
    "level_text": _BMC,
}
PROPERTY_NOTES["C08"] = {
    "composition": "fresh_peer_groups: a new peer holds no groups whatever the allocator handed out. auth_*: one authenticate request with right / wrong "
                   "password, unknown user, missing member, another user: groups are exactly the authenticated user's groups, a failure changes "
                   "nothing, the password buffer is zeroed on every path. reauth: groups follow the last successful authentication, nothing leaks. "
                   "visibility_*: a state with fetchGroups/setGroups [g1] is reported to and settable by a member of g1 only (member / other group / "
                   "unauthenticated peer), including the add that happens after the fetch. origin: loopback and local-socket origins are local.",
    "outside": "credential files as text; more than 2 groups / 4 users (the 32-group limit: 1 << j on int is read, not driven); call groups; both transports.",
    "level_text": _BMC,
}

# ------------------------------------------------------------------------------------------------ C13 HTTP front door
_scn_http = dict(_scn, harness="harness/scn_http.c", unwindset=dict(_scn["unwindset"], **{"br_writev.0": 14, "memchr.0": 10}),
                 units=_PROTO_UNITS + ["src/websocket_peer.c", "src/websocket.c", "src/compression.c", "src/utf8_checker.c", "src/linux/jet_endian.c", "src/base64.c", "src/http_server.c"],
                 stubs=_SCN_STUBS + ["http_parser_execute: contract stub (reports the URL at most once, parses the whole line or stops early); http_parser_parse_url: whole string is the path",
                                     "buffered reader of the connection: close/writev/read_until/set_error_handler record"])
for _m, _nm, _rch in ((0, "valid_line", ["accepted"]), (1, "error_after_url", ["refused"]), (2, "error_before_url", ["refused"]), (3, "other_path", ["refused"]),
                      (4, "lf_terminated_line_with_header", [])):
    O(id="C13.request_line_" + _nm, props=["C13", "C07", "C05"], entry="harness_request_line", reach=_rch, defines=["PARSER_MODE=%d" % _m],
      functions=["read_start_line", "on_url", "find_url_handler", "send_http_error_response", "get_response", "free_connection", "alloc_websocket_peer", "init_websocket_peer", "websocket_init", "init_peer", "free_websocket_peer_on_error", "websocket_close"],
      symbolic="(parser verdict fixed per obligation: %s)" % _nm, assumes=["connection allocation and initialisation succeed"],
      bounds="one request line; one URL handler (the websocket target)", **_scn_http)
PROPERTY_NOTES["C13"] = {
    "composition": "request_line_*: the real read_start_line/on_url with the real websocket peer creation behind them, for the four things the HTTP "
                   "parser can report about a request line (valid line for the target, syntax error after the URL, syntax error before it, another "
                   "path): a refused exchange is answered with an HTTP error status, closes the connection once and leaves no peer and no memory; "
                   "an accepted line creates exactly one peer whose teardown is registered with the connection, and closing half-way removes it. "
                   "read_until_step: lines are delivered exactly up to CRLF, over-long lines end the connection; fd_hygiene_http: set-up failures close the descriptor once.",
    "outside": "http_parser.c itself (contract stub); header lines after the request line (websocket_read_header_line / upgrade callbacks).",
    "level_text": _BMC,
}

# ------------------------------------------------------------------------------------------------ C19 permessage-deflate buffers
_c19 = dict(harness="harness/c19_compress.c",
            stubs=["inflate: contract stub (consumes <= avail_in, produces <= avail_out, touches only those ranges, any return code)",
                   "memcpy/memmove: byte loops", "libc malloc/realloc/free: CBMC models (never fail here)"])
O(id="C19.reassemble", props=["C19", "C06"], entry="harness_reassemble", reach=["second_fragment_larger_than_doubled_buffer"],
  functions=["reassemble", "write_int_to_array", "read_int_from_array"], unwind=6,
  unwindset={"verif_memcpy.0": 18, "write_int_to_array.0": 5, "reassemble.0": 4}, defines=["FMAX=16"],
  symbolic="lengths of two fragments (1..16 bytes each), fragment bytes", assumes=["allocations succeed"], bounds="two fragments of <= 16 bytes", **_c19)
O(id="C19.inflate_buffers", props=["C19", "C06"], entry="harness_decompress", reach=["decompressed"], unwind=8,
  functions=["private_decompress"], unwindset={"verif_memcpy.0": 8, "private_decompress.0": 5},
  symbolic="message length 0..6, every amount inflate consumes/produces and every return code, context-takeover flag",
  assumes=["allocations succeed", "inflate makes progress at the latest on its 3rd call (bounds the doubling loop)"], bounds="message <= 6 bytes, <= 4 inflate calls", **_c19)
PROPERTY_NOTES["C19"] = {
    "composition": "reassemble: two fragments of arbitrary lengths are appended inside the (re)allocated buffer and the recorded length is their sum; "
                   "inflate_buffers: the inflate driver copies the message plus the 4-byte tail inside its allocation and keeps next_out inside the "
                   "doubled output buffer for every behaviour of inflate.",
    "outside": "the lossless round trip and rejection of corrupt streams INSIDE zlib's inflate/deflate (input-length dependent compression loops: not "
               "encoded, contract stub instead); extension negotiation (fill_requested_extension) has no obligation yet; in the daemon the "
               "extension is never enabled (compression level 0).",
    "level_text": _BMC,
}

# ------------------------------------------------------------------------------------------------ C06/C09 parser input contract
O(id="C09.msg_bytes_only", props=["C09", "C06"], harness="harness/c09_parse_bounds.c", entry="harness_parse_bounds", unwind=10,
  functions=["parse_message"], symbolic="message length 1..6 and every message byte (no terminator guaranteed); message in an exact-size heap object",
  stubs=["cJSON_ParseWithOpts / cJSON_ParseWithLengthOpts: contract stubs reading what the documented contract lets the library read",
         "log_peer_err: empty; handlers: unreachable (the stub reports a parse error)"],
  assumes=[], bounds="messages <= 6 bytes", also_for=["C06"])

# ------------------------------------------------------------------------------------------------ C05 end of a WebSocket connection
_scn_wsclose = dict(_scn, harness="harness/scn_wsclose.c",
                    units=_PROTO_UNITS + ["src/websocket_peer.c", "src/websocket.c", "src/compression.c", "src/utf8_checker.c", "src/linux/jet_endian.c", "src/base64.c"],
                    unwindset=dict(_scn["unwindset"], **{"verif_router_snprintf.0": 10, "verif_router_snprintf.1": 5, "harness_ws_end.0": 12, "cjet_is_byte_sequence_valid.0": 4}),
                    stubs=_SCN_STUBS + ["buffered reader of the connection: close/writev/read_* flag any use after close; the http_connection object is really freed by free_connection",
                                        "snprintf in router.c: stand-in for the two id formats"])
for _c, _nm in ((0, "fin_in_frame_header"), (1, "socket_error"), (2, "daemon_closes_peer"), (3, "client_close_frame")):
    O(id="C05.ws_end_" + _nm, props=["C05", "C07", "C12"], entry="harness_ws_end", defines=["ENDCASE=%d" % _c],
      functions=["handle_error", "websocket_close", "free_websocket_peer_callback", "free_websocket_peer_on_error", "peer_close_websocket_peer", "close_callback",
                 "free_websocket_peer", "free_peer_resources", "remove_routing_info_from_peer", "remove_peer_from_routing_table", "clear_routing_entry",
                 "ws_send_message", "send_frame", "remove_all_fetchers_from_peer", "remove_all_elements_from_peer"],
      symbolic="state value", assumes=["set-up requests succeed"],
      bounds="websocket peer P owning a state (B subscribed), holding a fetch, caller of a request to O and owner of a request from B; connection ends by %s" % _nm,
      **_scn_wsclose)
_also(["C05.ws_end_"], ["C05", "C07"])

# ------------------------------------------------------------------------------------------------ C14 reply and expiry in one event batch
_scn_batch = dict(_scn, harness="harness/scn_batch.c",
                  unwindset=dict(_scn["unwindset"], **{"verif_router_snprintf.0": 10, "verif_router_snprintf.1": 5, "verif_epoll_ctl.0": 6, "handle_events.0": 4, "harness_batch.0": 12}),
                  stubs=_SCN_STUBS[:-3] + ["epoll_ctl/epoll_create/timerfd_create/timerfd_settime/close/socket_close: registration table and descriptor counter; socket_read on the timerfd: reports one expiration",
                                           "snprintf in router.c: stand-in for the two id formats", "credentials_ok/change_password: not part of this scenario"])
for _rf, _nm in ((1, "reply_then_expiry"), (0, "expiry_then_reply")):
    O(id="C14.batch_" + _nm, props=["C14", "C03", "C06", "C07"], entry="harness_batch", defines=["REPLY_FIRST=%d" % _rf],
      functions=["handle_events", "eventloop_epoll_add", "eventloop_epoll_remove", "cjet_timer_init", "timer_read", "timer_cancel", "cjet_timer_destroy",
                 "handle_routing_response", "request_timeout_handler", "setup_routing_information"],
      symbolic="set value", assumes=["set-up requests succeed", "the timer did expire (reading the timerfd returns one expiration)"],
      bounds="one routed request; one batch of two events (%s)" % _nm, **_scn_batch)
_also(["C14.batch_"], ["C14", "C06"])

# ------------------------------------------------------------------------------------------------ round-2 strengthening and new leaves
O(id="C13.url_match", props=["C13"], harness="harness/c13_url.c", entry="harness_url_match", reach=["match", "short_path"], unwind=12,
  unwindset={"strlen.0": 12, "strncmp.0": 12}, functions=["find_url_handler"],
  symbolic="requested path: length 0..10 and every byte (not NUL-terminated, exact-size heap object)", stubs=[], assumes=[], bounds="paths <= 10 bytes, one handler '/api/jet/'")
O(id="C08.visibility_prefix_group", props=["C08"], entry="harness_visibility", defines=["VISCASE=3"],
  functions=_AF + ["add_fetch_to_state_and_notify", "set_or_call", "fill_access", "get_elements"], symbolic="state value", assumes=["set-up requests succeed"],
  bounds="state 's' with fetchGroups/setGroups [g1]; peer P1 is a member of group 'g' only (a different group whose name is a prefix)", **_scn_auth)
O(id="C20.passwd_own_readonly_account", props=["C20", "C08", "C02"], entry="harness_passwd", defines=["PWCASE=6"], reach=["refused"], functions=_AF,
  symbolic="(concrete requester/target)", assumes=["the requester's own authentication succeeds"], bounds="database of 10 users; the read-only user changes its own password", **_scn_auth)
for _r, _nm, _op, _rch in ((10, "contains_all_of_ci_second_missing", "A", ["not_matched"]), (11, "contains_all_of_ci", "A", ["matched"]), (12, "equals_not_ci", "A", ["not_matched"]),
                           (12, "equals_not_ci", "z", ["matched"]), (13, "contains_ci", "A", ["matched"]), (14, "starts_with_ci", "A", ["matched"]), (15, "ends_with_ci", "A", ["matched"]),
                           (15, "ends_with_ci", "z", ["not_matched"])):
    O(id="C16.rule_%s_%s" % (_nm, _op), props=["C16", "C06", "C01"], entry="harness_rule", reach=_rch, defines=["RULE=%d" % _r, "OPCHAR='%s'" % _op],
      functions=["add_fetch_to_peer", "create_fetch", "add_matchers", "create_matcher", "matchers[] table", "state_matches", "add_fetch_to_states"],
      symbolic="state value (operand byte '%s' fixed per obligation)" % _op, assumes=["set-up add of 'ab' succeeds"],
      bounds="skeleton: A add 'ab'; B fetch with rule shape '%s' and operand byte '%s'; A change 'ab'" % (_nm, _op), **_scn_rule)
O(id="C05.ws_ping_write_fails", props=["C05", "C12"], entry="harness_ping_write_fails", functions=["ws_get_payload", "ws_handle_frame", "handle_error", "websocket_close"],
  symbolic="mask bytes", assumes=[], bounds="one 2-byte ping whose pong write fails", **_ws)
O(id="C05.caller_leaves_after_element_removed", props=["C05", "C03", "C07"], entry="harness_caller_leaves_after_element_removed", functions=_RF + ["remove_peer_from_routes"],
  symbolic="set value", assumes=["set-up succeeds"], bounds="skeleton: O add 's'; A set; O remove 's'; A disconnects; O replies late; O disconnects", **_scn_route)
_GUARDS = [(0, "set_on_method", "refused"), (1, "call_on_state", "refused"), (2, "set_on_fetch_only", "refused"), (3, "set_unknown_path", "refused"), (4, "call_unknown_path", "refused"),
           (5, "change_on_method", "refused"), (6, "add_path_of_other_peer", "refused"), (7, "add_own_path_again", "refused"), (8, "set_without_value", "refused"),
           (9, "set_on_state", "routed"), (10, "call_on_method", "routed"), (11, "remove_by_other_peer", "refused")]
_scn_guard = dict(_scn, harness="harness/scn_guard.c",
                  unwindset=dict(_scn["unwindset"], **{"verif_router_snprintf.0": 10, "verif_router_snprintf.1": 5}),
                  stubs=_SCN_STUBS + ["snprintf in router.c: stand-in for the two id formats"])
for _g, _nm, _out in _GUARDS:
    O(id="C04.guard_" + _nm, props=["C04", "C02", "C03", "C07"], entry="harness_guard", reach=[_out], defines=["GUARD=%d" % _g],
      functions=["add_element_to_peer", "init_element", "change_state", "set_or_call", "remove_element_from_peer", "element_table_get"],
      symbolic="value / argument", assumes=["set-up adds succeed"],
      bounds="O owns state 's', method 'm', fetch-only state 'f'; one request (%s) by A or O" % _nm, **_scn_guard)
_sp = dict(harness="harness/sp_leaves.c", units=["src/linux/jet_endian.c"], unwind=6,
           stubs=["buffered reader: read_exactly/writev/close record their arguments", "parse_message: records (pointer, length), symbolic verdict", "free_peer_resources/init_peer: record only"])
O(id="C09.length_prefix", props=["C09", "C06"], entry="harness_length_prefix", reach=["zero_length", "message_requested"], functions=["init_socket_peer", "read_msg_length"],
  symbolic="the four prefix bytes", assumes=[], bounds="none", **_sp)
O(id="C09.message_callback", props=["C09", "C05", "C06"], entry="harness_message", reach=["fin", "bad_message"], functions=["read_msg", "free_jet_peer"],
  symbolic="message length 0..4, parser verdict", assumes=[], bounds="none", **_sp)
O(id="C10.raw_header", props=["C10"], entry="harness_send_message", reach=["too_long"], functions=["send_message"],
  symbolic="payload length (all 2^64 values)", assumes=[], bounds="payload abstract (pointer identity)", **_sp)
_wu = dict(harness="harness/ws_upgrade.c", units=["src/compression.c", "src/utf8_checker.c", "src/linux/jet_endian.c", "src/base64.c"],
           stubs=["isspace: C-locale reference", "SHA1*: fixed digest (the hash itself is not encoded)", "connection writev: records the response", "zlib init/end: return Z_OK", "jet_strncasecmp: reference"])
O(id="C12.upgrade_rules", props=["C12", "C13"], entry="harness_upgrade_rules", reach=["accepted", "valid"], unwind=30,
  unwindset={"strlen.0": 30, "jet_strncasecmp.0": 26, "memcmp.0": 30, "check_websocket_protocol.0": 18, "check_websocket_protocol.1": 18, "b64_encode_buffer.0": 9, "b64_encode_buffer.1": 9, "SHA1Result.0": 22},
  functions=["websocket_upgrade_on_header_field", "websocket_upgrade_on_header_value", "websocket_upgrade_on_headers_complete", "send_upgrade_response", "check_websocket_protocol", "save_websocket_key", "check_websocket_version", "check_http_version"],
  symbolic="which of key/version/protocol/other headers are sent and whether each is well-formed; method, HTTP minor version, upgrade flag",
  assumes=["a header-callback error stops the HTTP parser (headers-complete is not reached)"], bounds="header texts from a closed vocabulary", **_wu)
O(id="C12.base64", props=["C12"], entry="harness_b64", unwind=22, unwindset={"b64_encode_buffer.0": 9, "b64_encode_buffer.1": 9},
  functions=["b64_encode_buffer"], symbolic="20 input bytes, observed output group", assumes=[], bounds="20-byte input (the SHA-1 digest size)", **_wu)
_NEG = ((2, "permessage-deflate", 0, 0), (2, "permessage-deflate; client_max_window_bits", 0, 0), (1, "permessage-deflate; server_max_window_bits=10; client_no_context_takeover", 0, 10),
        (3, "permessage-deflate; client_max_window_bits=9; server_no_context_takeover", 9, 0), (2, "permessage-deflate; bogus_parameter", 0, 0),
        (2, "x-webkit-deflate-frame, permessage-deflate; client_max_window_bits=15", 15, 0),
        (2, "permessage-deflate; client_max_window_bits=8", 8, 0), (3, "permessage-deflate; client_max_window_bits=12", 12, 0), (2, "permessage-deflate; server_max_window_bits=9", 0, 9))
for _i, (_lvl, _offer, _cb, _sb) in enumerate(_NEG):
    O(id="C19.negotiation_%d" % _i, props=["C19", "C06"], entry="harness_negotiation", unwind=12, tier="quick" if _i in (1, 4, 6, 7, 8) else "thorough",
      timeout={"quick": 600, "thorough": 1800},
      unwindset={"strlen.0": 130, "has.0": 130, "strncmp.0": 30, "memcmp.0": 30, "fill_requested_extension.0": 90, "fill_requested_extension.1": 90, "fill_requested_extension.2": 90,
                 "check_websocket_extensions.0": 90, "check_websocket_extensions.1": 90, "memcpy.0": 30, "harness_negotiation.0": 30},
      defines=["NEG_LEVEL=%d" % _lvl, 'NEG_OFFER="%s"' % _offer, "NEG_CLIENT_BITS=%d" % _cb, "NEG_SERVER_BITS=%d" % _sb],
      functions=["check_websocket_extensions", "fill_requested_extension", "write_to_response", "alloc_compression"],
      symbolic="(concrete offer per obligation: '%s', compression level %d)" % (_offer, _lvl), assumes=["realloc succeeds"], bounds="one extension offer", **_wu)

# the routed-id formatting label (C06.*) lives in the routing scenarios
for _o in OBLIGATIONS:
    if _o["harness"] in ("harness/scn_route.c", "harness/scn_guard.c", "harness/scn_batch.c", "harness/scn_wsclose.c") and "C06" not in _o["props"]:
        _o["props"].append("C06")

# ------------------------------------------------------------------------------------------------ thorough tier: deeper bounds
O(id="C16.match_functions_len4", props=["C16"], harness="harness/c16_match.c", entry="harness_match", tier="quick", reach=["long_path"], unwind=7, defines=["SL=4"],
  functions=["the twelve match functions"], symbolic="path, operand and second operand: each 0..4 arbitrary non-NUL bytes",
  stubs=["strlen/strcmp/strncmp/strstr/strcasecmp/strncasecmp/strcasestr: reference implementations (C locale)"], assumes=[], bounds="strings <= 4 bytes",
  timeout={"quick": 900, "thorough": 3600}, flags=["--no-bounds-check"])
O(id="C12.frame_rules_payload10", props=["C12", "C06"], entry="harness_frame_rules", tier="quick", defines=["MAXPAY=10"],
  reach=["rsv", "big_control", "ping", "close_ok", "stray_continuation", "continuation", "text", "first_fragment"],
  functions=["ws_handle_frame"], symbolic="as C12.frame_rules with payloads up to 10 bytes", assumes=["as C12.frame_rules"], bounds="payload <= 10 bytes or 126",
  **dict(_ws, unwind=12, unwindset={"strlen.0": 24, "frame_rules.0": 12, "ws_writev.0": 16, "cjet_is_byte_sequence_valid.0": 12}, timeout={"quick": 900, "thorough": 3600}))
O(id="C10.writev_step_3x3", props=["C10", "C11"], entry="harness_writev", tier="thorough", reach=["partial_then_queued", "refused", "hard_error"], defines=["L0=3", "L1=3"],
  functions=["buffered_socket_writev", "copy_iovec_to_write_buffer", "copy_single_buffer", "send_buffer"],
  symbolic="as C10.writev_step with chunks of up to 3 bytes and a 6 byte write buffer", assumes=["to_write <= W"], bounds="W=6, frame = 2 chunks of <=3 bytes",
  **dict(_bs, unwind=10, config={"CONFIG_MAX_WRITE_BUFFER_SIZE": 6, "CONFIG_MAX_MESSAGE_SIZE": 4}, timeout={"quick": 900, "thorough": 3600}))
for _off in (0, 5):
    O(id="C18.auto_aligned_len25_off%d" % _off, entry="harness_auto", tier="thorough", unwind=27, reach=["auto_word_path"], defines=["ALEN=25", "AOFF=%d" % _off],
      symbolic="text bytes, length 0..25, is_complete; alignment %d" % _off, bounds="length <= 25 (two 64-bit words)", timeout={"quick": 900, "thorough": 3600},
      **dict(_c18, functions=["cjet_is_word_sequence_valid_auto_alligned"]))
# (C19.offer_bytes - fill_requested_extension on symbolic offer bytes - gave no verdict in 25 min even for 3 symbolic bytes: not registered, see DESIGN.md 8.4)


# ================================================================================================ notes updated after the later obligations were added
PROPERTY_NOTES["C04"].update({
    "composition": "The path index is an exact finite map (C17, string tables, shared obligations). guard_*: one request of every guarded kind against a state, "
    "a method and a fetch-only state owned by O (set on method, call on state, set on fetch-only, unknown paths, change on method, add of a path owned by "
    "another / the same peer, set without value, remove by a non-owner): refused with exactly one error, nothing routed, every element and value unchanged; "
    "set on a state / call on a method are routed to the owner with the value unchanged. add_notify / change_by_* / remove_by_*: add succeeds iff the element "
    "now exists, only the owner changes/removes, a request answered with an error changed nothing, the owner's request takes effect even if a subscriber cannot be notified.",
    "outside": "arbitrary path strings (paths are short constants; the table hash is abstracted, collisions are C17's subject); get."})
PROPERTY_NOTES["C05"].update({
    "composition": "read_after_close_*: once a read callback or the error callback released the socket object the read loop does not touch it. "
    "ws_end_*: the real websocket_peer.c/websocket.c teardown (close frame, connection freed, then peer bookkeeping) for a peer that owns a state, holds a fetch, "
    "is caller of one routed request and owner of another, ended by FIN in a frame header, socket error, daemon shutdown or a client close frame: subscribers see "
    "remove, the foreign caller gets one error, other peers' elements stay, timers destroyed, nothing read or written through the released connection (heap object "
    "really freed), everything released afterwards. ws_header_eof / ws_ping_write_fails: FIN in any frame phase and an unanswerable ping end the connection once. "
    "owner_leaves / caller_leaves / caller_leaves_after_element_removed / bystander_* / first_subscriber_leaves_by_disconnect: free_peer_resources for raw peers. "
    "message_callback: FIN and malformed messages free the raw peer once.",
    "outside": "HTTP-phase ends other than the request line (C13); buffered output at close; more than one element/fetch/request per role."})
PROPERTY_NOTES["C09"].update({
    "composition": "read_exact_step / read_until_step: one reader call from ANY buffer state with an arbitrary kernel hands out exactly the next stream bytes, loses/duplicates "
    "none, keeps the invariant (one step from the invariant covers every segmentation). length_prefix / message_callback: the 4-byte big-endian prefix decides the next read "
    "(zero skipped, otherwise exactly that many bytes), the parser gets exactly the message bytes. msg_bytes_only: the JSON library is entitled to read the message bytes only "
    "(contract stubs of its entry points; exact-size buffer). header_machine / ext_length: WebSocket header reads.",
    "outside": "M = 3 (quick) / 4 (thorough) byte buffers; equality of full daemon output across segmentations (reader x handlers composition is prose); the JSON parser's own reads (third-party); epoll batching beyond C14.batch_*."})
PROPERTY_NOTES["C10"].update({
    "composition": "writev_step: from any pending buffer one gathered write of a 2-chunk frame with an arbitrary kernel: accepted frames are fully sent-or-queued in order after "
    "the old pending bytes; flush_step: writability events conserve bytes and order, report a hard error once, never spin; raw_header / send_frame: one frame = one gathered "
    "write with a correct (raw: 4-byte big-endian; WebSocket: minimal) header.",
    "outside": "W = 4 (quick) / 6 (thorough); frames of 2 chunks; 'never blocks' in the OS sense. KNOWN FINDING: a refused frame may already be partly sent/queued."})
PROPERTY_NOTES["C12"].update({
    "composition": "upgrade_rules: for every combination of present/well-formed key, version, protocol and other headers, method, HTTP version and upgrade flag the real header "
    "callbacks + headers-complete + upgrade response answer 101 (with a 28-character accept value) exactly for valid upgrades; base64: the digest encoding decodes to its input. "
    "header_machine + ext_length + payload_step: frame header decoding per RFC 6455 5.2, unmasked client frames refused with 1002. frame_rules(_payload10) / ws_daemon_callbacks: "
    "outcome per (FIN, RSV, opcode, fragmentation state, length class) equals the RFC table, close codes per 7.4.1, fragmented messages are processed or refused with 1003. "
    "unmask_off*: xor with mask[i mod 4] at every alignment. send_frame / close_frame: server frames FIN, unmasked, minimally length-encoded.",
    "outside": "the accept digest itself (SHA-1 stubbed: hashing loop over symbolic input is not encoded); 'same JSON-RPC behaviour as the raw transport' (both call parse_message: read, "
    "not checked); payloads > 10 bytes except the 125/126 boundary; permessage-deflate (C19)."})
PROPERTY_NOTES["C14"].update({
    "composition": "timeout_value (z3): precedence, 1 ms lower bound, uint64 upper bound and seconds->ns conversion for every double; timeout_huge: no undefined conversion; "
    "itimerspec_full_range (cvc5 integer encoding): every 64-bit deadline splits into sec/nsec; precedence_*: the armed deadline is the request's, else the element's, else the "
    "default (five combinations through the real add/set path); timer_lifecycle: one-shot, cancel reports cancellation; C14.timeout / C03.reply_*: expiry answers once, late reply "
    "discarded, reply cancels and destroys the timer; batch_*: reply and expiry harvested in one epoll batch, in both orders, through the real eventloop_epoll.c and "
    "timer_linux.c: exactly one answer, no released object touched.",
    "outside": "'no earlier than the deadline' (kernel timerfd semantics); batches of more than two events; caller/owner disconnect in the same batch."})
PROPERTY_NOTES["C19"].update({
    "composition": "reassemble: two fragments of arbitrary lengths (<= 16) are appended inside the (re)allocated buffer; inflate_buffers: the inflate driver keeps its input copy "
    "and the doubled output buffer inside their allocations for every behaviour of inflate (contract stub); negotiation_*: six concrete offers: the answer names only offered or "
    "server-choosable parameters, window bits 8..15, response <= 128 bytes.",
    "outside": "NOT APPLICABLE PART: the lossless round trip and corrupt-stream rejection inside zlib's inflate/deflate (input-length dependent compression loops: not encoded). "
    "Offer parsing on symbolic bytes (no verdict in 25 min). In the daemon the extension is never enabled (compression level 0)."})

# ------------------------------------------------------------------------------------------------ websocket_peer.c leaves
_wsp = dict(harness="harness/wsp_leaves.c", unwind=6, stubs=["parse_message: records (pointer, length), symbolic verdict", "log_peer_*: empty", "memcpy: CBMC built-in (bounds checked)"])
O(id="C06.pong_payload_copy", props=["C06", "C12"], entry="harness_pong", reach=["long_pong"], functions=["pong_received"],
  symbolic="pong payload length 0..125 (exact-size heap object)", assumes=[], bounds="control frame payload <= 125 bytes (the frame rules refuse longer ones: C12.frame_rules)", **_wsp)
O(id="C12.text_to_dispatcher", props=["C12", "C09"], entry="harness_text", functions=["text_message_callback"],
  symbolic="message length 0..4, dispatcher verdict", assumes=[], bounds="none", **_wsp)

O(id="C02.batch_garbage_member", props=["C02", "C11", "C06"], entry="harness_batch_garbage", functions=["parse_message", "parse_json_array", "parse_json_rpc"],
  symbolic="state value", assumes=[], bounds="batch of 3: add, a number, remove", **_scn_rpc)
O(id="C07.shutdown", props=["C07", "C05"], entry="harness_shutdown", functions=["destroy_all_peers", "free_peer_resources"] + _RF,
  symbolic="set value", assumes=["set-up succeeds"], bounds="3 peers: owner of a state, a subscriber, a caller with a request in flight; then destroy_all_peers()", **_scn_route)

for _af, _nm in ((0, "fetch_then_add"), (1, "add_then_fetch")):
    O(id="C01.table_growth_" + _nm, props=["C01"], entry="harness_table_growth", defines=["ADD_FIRST=1"] if _af else [],
      functions=["add_fetch_to_state", "find_fetchers_for_element", "add_fetch_to_states", "notify_fetchers"],
      symbolic="new state value", assumes=["set-up steps succeed"],
      bounds="4 subscriptions (3 peers, one with two fetches) on one element, initial subscription table size 2 (%s)" % _nm, **_scn_fetch)

_SHAPES = ['add_no_params', 'add_params_number', 'add_params_array', 'add_path_number', 'add_path_object', 'add_path_missing', 'add_access_number', 'add_fetchgroups_number_member', 'add_setgroups_string', 'add_fetchonly_number', 'add_timeout_string', 'change_path_number', 'change_no_value', 'remove_path_array', 'set_path_number', 'set_timeout_string', 'call_no_params', 'fetch_no_id', 'fetch_id_object', 'fetch_rule_number', 'fetch_no_params', 'unfetch_id_array', 'unfetch_foreign_fetch', 'get_rule_string', 'config_name_number', 'config_no_params', 'authenticate_user_number', 'authenticate_password_object', 'passwd_user_array', 'method_number', 'method_object', 'id_object', 'id_array', 'id_true', 'bare_number', 'bare_string', 'empty_batch', 'nested_batch', 'empty_object', 'response_numeric_id', 'response_object_id', 'response_no_id']
_scn_shape = dict(_scn_guard, harness="harness/scn_shapes.c")
for _i, _nm in enumerate(_SHAPES):
    O(id="C06.shape_" + _nm, props=["C06", "C02", "C04"], entry="harness_shape", defines=["SHAPE=%d" % _i],
      reach=(["tolerated"] if _i in (6, 7) else ["refused"]) + ([] if _i in {6, 7, 32, 33, 34, 35, 36, 37, 38, 39, 40, 41, 31} else ["with_id"]),
      functions=["parse_message", "parse_json_rpc", "parse_json_array", "handle_method", "add_element_to_peer", "change_state", "remove_element_from_peer", "set_or_call", "add_fetch_to_peer",
                 "remove_fetch_from_peer", "get_elements", "config_peer", "handle_authentication", "handle_change_password", "handle_routing_response", "create_error_response*"],
      symbolic="one number inside the hostile member", assumes=["set-up (O add 's', B fetch-all) succeeds"],
      bounds="one message of shape '%s' by A; 3 peers, 1 element, 1 subscription" % _nm, **_scn_shape)

# get with a path rule (C16: "a fetch or get with a path rule selects exactly ...")
_GET_RULES = [(0, "equals", "a", ["matched"]), (0, "equals", "A", ["not_matched"]), (1, "equals_ci", "A", ["matched"]), (3, "unknown_name", "a", ["refused"]),
              (4, "wrong_type", "a", ["refused"]), (5, "repeated_option", "A", []), (6, "too_many", "a", ["refused"]), (7, "contains_all_of", "a", ["matched"]),
              (8, "equals_not_and_contains", "a", ["not_matched"]), (15, "ends_with_ci", "A", ["matched"]), (15, "ends_with_ci", "z", ["not_matched"])]
for _r, _nm, _op, _rch in _GET_RULES:
    O(id="C16.get_rule_%s_%s" % (_nm, _op), props=["C16", "C06", "C02"], entry="harness_rule", reach=_rch, defines=["RULE=%d" % _r, "OPCHAR='%s'" % _op, "VIA_GET=1"],
      functions=["get_elements", "get_elements_in_peer", "create_fetch", "add_matchers", "create_matcher", "state_matches", "free_fetch"],
      symbolic="state value (operand byte '%s' fixed per obligation)" % _op, assumes=["set-up add of 'ab' succeeds"],
      bounds="skeleton: A add 'ab'; B get with rule shape '%s' and operand byte '%s'; struct-hack arrays: --no-bounds-check (object bounds still checked)" % (_nm, _op), **_scn_rule)

for _k, _kn in ((1, "owner_disconnect"), (2, "caller_disconnect")):
    for _rf, _nm in ((1, "%s_then_expiry" % _kn), (0, "expiry_then_%s" % _kn)):
        O(id="C14.batch_" + _nm, props=["C14", "C03", "C05", "C06", "C07"], entry="harness_batch", defines=["REPLY_FIRST=%d" % _rf, "BATCH_KIND=%d" % _k],
          functions=["handle_events", "eventloop_epoll_add", "eventloop_epoll_remove", "cjet_timer_init", "timer_read", "timer_cancel", "cjet_timer_destroy",
                     "free_peer_resources", "remove_routing_info_from_peer", "remove_peer_from_routes", "request_timeout_handler", "setup_routing_information"],
          symbolic="set value", assumes=["set-up requests succeed", "the timer did expire (reading the timerfd returns one expiration)"],
          bounds="one routed request; one batch of two events (%s)" % _nm, **_scn_batch)
_also(["C14.batch_"], ["C14", "C06"])

O(id="C05.peer_leaves_with_everything", props=["C05", "C03", "C01", "C07", "C11"], entry="harness_peer_leaves_with_everything",
  functions=_RF + ["free_peer_resources", "remove_routing_info_from_peer", "remove_peer_from_routes", "remove_all_fetchers_from_peer", "remove_all_elements_from_peer", "notify_fetchers"],
  symbolic="set value, reply payload / new value", assumes=["set-up requests succeed and are routed"],
  bounds="4 peers: P owns 's' (B subscribed), P holds a fetch, P -> O set in flight, A -> P set in flight; then P's connection ends", **_scn_route)

# look-alike option keys: a key that is not exactly "caseInsensitive" is a matcher name (and an unknown one)
for _r, _nm in ((16, "option_name_prefix_alone"), (17, "option_name_prefix"), (18, "option_name_other_case"), (19, "option_name_lower_case_first")):
    for _via in (0, 1):
        O(id="C16.%srule_%s_a" % ("get_" if _via else "", _nm), props=["C16", "C06", "C02"], entry="harness_rule", reach=["refused"],
          defines=["RULE=%d" % _r, "OPCHAR='a'"] + (["VIA_GET=1"] if _via else []),
          functions=["add_fetch_to_peer", "get_elements", "create_fetch", "add_matchers", "create_matcher", "get_fetch_id", "state_matches", "free_fetch"],
          symbolic="state value", assumes=["set-up add of 'ab' succeeds"],
          bounds="skeleton: A add 'ab'; B %s with rule shape '%s'; struct-hack arrays: --no-bounds-check (object bounds still checked)" % ("get" if _via else "fetch", _nm), **_scn_rule)

for _c, _nm in ((7, "name_extends_requesters"), (8, "name_is_prefix_of_requesters")):
    O(id="C20.passwd_account_whose_" + _nm, props=["C20", "C08", "C02"], entry="harness_passwd", defines=["PWCASE=%d" % _c], reach=["refused"], functions=_AF,
      symbolic="(concrete requester/target)", assumes=["the requester's own authentication succeeds"],
      bounds="database of 10 users; users 'u1' and 'u1x' (one name a prefix of the other), neither admin", **_scn_auth)

O(id="C03.self_request_bystander", props=["C03", "C05", "C07"], entry="harness_self_request_bystander", functions=_RF + ["remove_peer_from_routes", "remove_peer_from_routing_table"],
  symbolic="set value, reply payload", assumes=["set-up succeeds"], bounds="skeleton: O add 's'; O set 's' (routed to itself); bystander C disconnects; O replies", **_scn_route)

# the edge of the 32-slot hop window and displacement (find_closer_entry): not reachable at order 2/3
for _lay, _fill, _lnm, _rch in ((0, 31, "last_slot_free", ["inserted"]), (0, 32, "full", ["refused"]), (1, 32, "displacement", ["inserted"]), (2, 32, "free_slot_beyond_window", ["inserted"]),
                                (3, 32, "window_held_by_foreign_keys", ["inserted"])):
    for _base in (0, 100, 120):      # 100: the window wraps around the table end behind slot 27; 120: already behind slot 7 (the displaced entry lies beyond the wrap)
        O(id="C17.window_%s_base%d" % (_lnm.replace("window_held", "held"), _base), props=["C17", "C04"], harness="harness/c17_window.c", entry="harness_window",
          defines=["LAYOUT=%d" % _lay, "BASE=%d" % _base, "FILL=%d" % _fill], unwind=130, flags=["--max-field-sensitivity-array-size", "256"], reach=_rch,
          functions=["hashtable_put_T", "find_closer_entry_T", "hashtable_get_T", "hashtable_remove_T (DECLARE_HASHTABLE_UINT32, order 7)"],
          symbolic="stored value (the layout is concrete per obligation)", stubs=["hs_hash32 replaced by a table key -> bucket"],
          assumes=[], bounds="order 7 (128 slots), concrete layout around bucket %d%s, %d keys in the window, uint32 keys" % (_base, " (wraps around the table end)" if _base else "", _fill),
          timeout={"quick": 600, "thorough": 3000})

for _vt, _nm in enumerate(("null", "false", "empty_string", "empty_array", "empty_object", "zero")):
    O(id="C04.state_with_value_" + _nm, props=["C04", "C02"], entry="harness_value_types", defines=["VTYPE=%d" % _vt],
      functions=["add_element_to_peer", "init_element", "get_elements", "set_or_call", "change_state"],
      symbolic="argument / new value", assumes=[], bounds="O adds 'v' with the value %s; A get, A call, O change" % _nm, **_scn_guard)

# round 4: which properties further obligations bear on
_also(["C12.upgrade_rules"], ["C13"])                    # every label says which handshakes are (not) upgraded: a non-upgrade answered 101 is C13's subject
# the write buffer's fill level stays inside the buffer: memory safety of the send path (C06); the other C10 labels are not C06's subject
for _o in OBLIGATIONS:
    if _o["id"] in ("C10.writev_step", "C10.writev_step_3x3", "C10.flush_step"):
        if "C06" not in _o["props"]:
            _o["props"].append("C06")      # built-in (auto) checks of an obligation count for all of its properties
        _o.setdefault("label_props", {})["C10.pending_count_in_bounds"] = ["C10", "C06"]

# ------------------------------------------------------------------------------------------------ notes for the round-4 extensions
def _note_add(p, comp=None, outside_replace=None):
    n = PROPERTY_NOTES[p]
    if comp:
        n["composition"] = n["composition"].rstrip() + " " + comp
    if outside_replace:
        n["outside"] = outside_replace
_note_add("C17", "window_*: at order 7 (128 slots, insertion range 64) the edge of the 32-slot hop window: with 31 keys in a bucket's window the last slot is used, with 32 the put is refused when nothing can move, and find_closer_entry displaces a neighbour's entry (free slot at distance 32 and at distance 41) - invariant with the real window of 32 preserved, every stored key still found through the real lookup, the new key found and removable; at the table start and wrapping around its end.",
          "table orders >= 4 for the symbolic inductive steps (quick: order 2, thorough: order 3); at order 7 only the concrete window layouts above (stored value symbolic); key universe of 6 keys and single-letter string keys in the inductive steps; the production orders 6 and 13 as such.")
_note_add("C14", "batch_*_disconnect_*: the expiry harvested in one batch with the owner's or the caller's disconnect, in both orders: one final answer (owner leaves) / the timeout answer only while the caller is connected, nothing sent through the released connection, timer descriptor closed and deregistered, no released object touched.",
          "'no earlier than the deadline' (kernel timerfd semantics); batches of more than two events.")
_note_add("C16", "get_rule_*: the same rules in a get request return exactly the matching elements and leave nothing behind. rule_option_name_* / get_rule_option_name_*: a key that merely resembles the option key (prefix, other case) is an unknown matcher and is refused without side effects.")
_note_add("C19", "negotiation_6..8 and the window labels: for offers that carry a value, the negotiated client / server window is never larger than the offered one and the response states the negotiated value.")
_note_add("C20", "passwd_account_whose_name_*: a user whose name is a prefix / an extension of the target's name is not the target. The file offset before an update is arbitrary (0..4) and truncation leaves holes as zero bytes: the update must not depend on where earlier reads/writes left the offset; passwd_own_account/passwd_admin perform a second change and the file again holds exactly the serialisation.")
_note_add("C15", "fetch_grow: the same for the third subscription to an element (the element's subscription table has to grow). After every injected failure a fault-free change of the element by its owner is carried out (the daemon keeps serving).")
_note_add("C04", "shape_*: hostile member shapes (C06.shape_* obligations) leave every element unchanged. state_with_value_*: an element added with a value of any JSON type (null, false, \"\", [], {}, 0) is a state: listed by get, call refused, owner's change accepted.")
_note_add("C06", "shape_*: 42 hostile JSON-RPC message shapes (members missing, of the wrong type, nested; bare scalars; empty / nested batches; responses with odd ids) through the real dispatcher and handlers: memory safe, connection kept or closed as documented, at most one (error) response, nothing routed, nobody notified, nothing leaked.")
_note_add("C05", "peer_leaves_with_everything: one peer that owns a subscribed state, holds a fetch, is the caller of one in-flight request and the owner of another leaves: subscribers see remove once, the foreign caller gets one error, its own request is dropped (late reply writes nothing), its fetch no longer receives events, other peers' elements and fetches are unaffected, everything is released once all peers are gone.")
_note_add("C03", "self_request_bystander: a peer's set to its own state is neither answered nor dropped by a bystander's disconnect.")

# ------------------------------------------------------------------------------------------------ thorough tier: deeper bounds (second batch)
O(id="C16.match_functions_len5", props=["C16"], harness="harness/c16_match.c", entry="harness_match", tier="quick", reach=["long_path"], unwind=8, defines=["SL=5"],
  functions=["the twelve match functions"], symbolic="path, operand and second operand: each 0..5 arbitrary non-NUL bytes",
  stubs=["strlen/strcmp/strncmp/strstr/strcasecmp/strncasecmp/strcasestr: reference implementations (C locale)"], assumes=[], bounds="strings <= 5 bytes",
  timeout={"quick": 900, "thorough": 3600}, flags=["--no-bounds-check"])
O(id="C12.frame_rules_payload16", props=["C12", "C06"], entry="harness_frame_rules", tier="quick", defines=["MAXPAY=16"],
  reach=["rsv", "big_control", "ping", "close_ok", "stray_continuation", "continuation", "text", "first_fragment"],
  functions=["ws_handle_frame"], symbolic="as C12.frame_rules with payloads up to 16 bytes", assumes=["as C12.frame_rules"], bounds="payload <= 16 bytes or 126",
  **dict(_ws, unwind=18, unwindset={"strlen.0": 24, "frame_rules.0": 18, "ws_writev.0": 22, "cjet_is_byte_sequence_valid.0": 18}, timeout={"quick": 900, "thorough": 3600}))
O(id="C18.auto_aligned_len33_off3", entry="harness_auto", tier="thorough", unwind=35, reach=["auto_word_path"], defines=["ALEN=33", "AOFF=3"],
  symbolic="text bytes, length 0..33, is_complete; alignment 3", bounds="length <= 33 (three 64-bit words after the unaligned head)", timeout={"quick": 900, "thorough": 3600}, mem_gb=24,
  **dict(_c18, functions=["cjet_is_word_sequence_valid_auto_alligned"]))

O(id="C13.header_line_step", props=["C13", "C05", "C12", "C06"], entry="harness_header_line", reach=["eof", "bad_line", "upgraded", "next_line"],
  functions=["websocket_read_header_line", "handle_error", "websocket_close"],
  symbolic="line length 0..4 (exact-size heap object), parser verdict (consumes everything / stops early), whether the line completed an upgrade",
  assumes=["http_parser_execute contract: consumes at most the bytes it is given; sets parser->upgrade only when it consumed everything"], bounds="one header line", **_ws)

for _c, _nm, _r in ((0, "member", "allowed"), (1, "set_group_only", "refused"), (2, "unauthenticated", "refused")):
    O(id="C08.call_rights_" + _nm, props=["C08", "C04"], entry="harness_call_rights", defines=["CALLCASE=%d" % _c], reach=[_r],
      functions=_AF + ["set_or_call", "fill_access", "has_access", "get_groups"], symbolic="call argument", assumes=["set-up requests succeed"],
      bounds="method 'm' with fetchGroups/callGroups [g1]; caller: uc (callGroups g1) / us (fetch+set groups g1 only) / unauthenticated", **_scn_auth)

# ------------------------------------------------------------------------------------------------ "outside" notes brought up to date
PROPERTY_NOTES["C01"]["outside"] = ("more than 4 peers / 1 element / 4 subscriptions per skeleton; both transports (the transport is a recording stub); arbitrary "
                                    "interleavings with disconnects (teardown steps are C05/C03 obligations, one composite scenario C05.peer_leaves_with_everything); "
                                    "table growth beyond one doubling (2 -> 4 slots).")
PROPERTY_NOTES["C02"]["outside"] = ("the JSON text level (parsing/rendering is the third-party library, replaced by a tree model); batches longer than 4; "
                                    "ids of type object/array/true are driven (C06.shape_id_*: no response can be built for them, none is sent), null/false ids are not.")
PROPERTY_NOTES["C04"]["outside"] = "arbitrary path strings (paths are short constants; the table hash is abstracted, collisions are C17's subject)."
PROPERTY_NOTES["C08"]["outside"] = ("credential files as text; more than 3 groups / 9 users (the 32-group limit: 1 << j on int is read, not driven); both transports.")
PROPERTY_NOTES["C12"]["outside"] = ("the accept digest itself (SHA-1 stubbed: hashing loop over symbolic input is not encoded); 'same JSON-RPC behaviour as the raw transport' "
                                    "(both call parse_message: C12.text_to_dispatcher checks the hand-over, not the equality); payloads > 10 bytes (16 in the thorough tier) except the 125/126 boundary; permessage-deflate (C19).")
PROPERTY_NOTES["C13"]["outside"] = ("http_parser.c itself (contract stub: consumes at most what it is given, reports an error by stopping early, sets upgrade on a complete upgrade request); "
                                    "more than one header line per step (C13.header_line_step is one step from the header phase).")
PROPERTY_NOTES["C16"]["outside"] = ("strings longer than 4 bytes (5 in the thorough tier) at the match functions; glibc's own strcasecmp/strcasestr/strstr (reference implementations stand in "
                                    "for them: the obligation checks cjet's use of them - argument order, length arithmetic); locales other than \"C\".")
PROPERTY_NOTES["C18"]["outside"] = ("texts longer than 17 bytes through the auto-aligned front end in the quick tier (25 and 33 bytes at selected alignments in the thorough tier; its three "
                                    "sub-calls are covered by the step/word lemmas for any length); big-endian hosts.")
PROPERTY_NOTES["C13"]["composition"] = PROPERTY_NOTES["C13"]["composition"].rstrip() + (" header_line_step: one header line in the HTTP phase: a line the parser rejects is answered with one 400 "
                                    "and the connection is released once, end of stream releases it without a response, a completed upgrade switches to frame reading, otherwise the next line is requested; no websocket frame is written before the upgrade.")
PROPERTY_NOTES["C08"]["composition"] = PROPERTY_NOTES["C08"]["composition"].rstrip() + " call_rights_*: calling a method follows the call groups (a member of the set group only, or an unauthenticated peer, is refused)."

O(id="C16.match_functions_len8", props=["C16"], harness="harness/c16_match.c", entry="harness_match", tier="quick", reach=["long_path"], unwind=11, defines=["SL=8"],
  functions=["the twelve match functions"], symbolic="path, operand and second operand: each 0..8 arbitrary non-NUL bytes",
  stubs=["strlen/strcmp/strncmp/strstr/strcasecmp/strncasecmp/strcasestr: reference implementations (C locale)"], assumes=[], bounds="strings <= 8 bytes",
  timeout={"quick": 900, "thorough": 3600}, flags=["--no-bounds-check"])
O(id="C12.frame_rules_payload40", props=["C12", "C06"], entry="harness_frame_rules", tier="quick", defines=["MAXPAY=40"],
  reach=["rsv", "big_control", "ping", "close_ok", "stray_continuation", "continuation", "text", "first_fragment"],
  functions=["ws_handle_frame"], symbolic="as C12.frame_rules with payloads up to 40 bytes", assumes=["as C12.frame_rules"], bounds="payload <= 40 bytes or 126",
  **dict(_ws, unwind=42, unwindset={"strlen.0": 24, "frame_rules.0": 42, "ws_writev.0": 46, "cjet_is_byte_sequence_valid.0": 42}, timeout={"quick": 900, "thorough": 3600}))

# deeper bounds for cheap leaves
O(id="C13.url_match_len24", props=["C13"], harness="harness/c13_url.c", entry="harness_url_match", reach=["match", "short_path"], unwind=26, defines=["UMAX=24"],
  unwindset={"strlen.0": 12, "strncmp.0": 26}, functions=["find_url_handler"],
  symbolic="requested path: length 0..24 and every byte (not NUL-terminated, exact-size heap object)", stubs=[], assumes=[], bounds="paths <= 24 bytes, one handler '/api/jet/'")
O(id="C09.msg_bytes_only_len24", props=["C09", "C06"], harness="harness/c09_parse_bounds.c", entry="harness_parse_bounds", unwind=26, defines=["MSGMAX=24"],
  functions=["parse_message"], symbolic="message length 1..24 and every message byte (no terminator guaranteed); message in an exact-size heap object",
  stubs=["cJSON_ParseWithOpts / cJSON_ParseWithLengthOpts: contract stubs reading what the documented contract lets the library read",
         "log_peer_err: empty; handlers: unreachable (the stub reports a parse error)"],
  assumes=[], bounds="messages <= 24 bytes", also_for=["C06"])
for _off in (1, 6):
    O(id="C12.unmask_len48_off%d" % _off, props=["C12", "C06"], entry="harness_unmask", reach=["word_path"], defines=["AOFF=%d" % _off, "ULEN=48"], tier="quick",
      functions=["unmask_payload"], symbolic="payload bytes, length 0..48, mask, observed index; exact-size heap object at alignment %d" % _off,
      assumes=[], bounds="length <= 48 (up to six 64-bit words + pre/post bytes); alignment %d" % _off,
      **dict(_ws, unwind=6, unwindset={"unmask_payload.0": 9, "unmask_payload.1": 10, "unmask_payload.2": 9, "unmask_payload.3": 9, "unmask_payload.4": 9, "harness_unmask.0": 50},
             timeout={"quick": 900, "thorough": 3600}))

O(id="C16.match_functions_len16", props=["C16"], harness="harness/c16_match.c", entry="harness_match", tier="thorough", reach=["long_path"], unwind=19, defines=["SL=16"],
  functions=["the twelve match functions"], symbolic="path, operand and second operand: each 0..16 arbitrary non-NUL bytes",
  stubs=["strlen/strcmp/strncmp/strstr/strcasecmp/strncasecmp/strcasestr: reference implementations (C locale)"], assumes=[], bounds="strings <= 16 bytes",
  timeout={"quick": 900, "thorough": 3600}, flags=["--no-bounds-check"])
O(id="C12.frame_rules_payload125", props=["C12", "C06"], entry="harness_frame_rules", tier="thorough", defines=["MAXPAY=125"],
  reach=["rsv", "big_control", "ping", "close_ok", "stray_continuation", "continuation", "text", "first_fragment"],
  functions=["ws_handle_frame"], symbolic="as C12.frame_rules with payloads up to 125 bytes (every control-frame size)", assumes=["as C12.frame_rules"], bounds="payload <= 125 bytes or 126",
  **dict(_ws, unwind=127, unwindset={"strlen.0": 24, "frame_rules.0": 127, "ws_writev.0": 130, "cjet_is_byte_sequence_valid.0": 127}, timeout={"quick": 900, "thorough": 3600}))

for _pl, _nm in enumerate(("null", "false", "empty_string", "empty_object", "zero")):
    for _err in (0, 1):
        O(id="C03.reply_%s_%s" % ("error" if _err else "result", _nm), props=["C03", "C02", "C07"], entry="harness_reply_payload_types",
          defines=["PAYLOAD=%d" % _pl] + (["REPLY_ERROR=1"] if _err else []), functions=_RF + ["parse_json_rpc"],
          symbolic="set value", assumes=["set-up succeeds"], bounds="skeleton: O add 's'; A set; O replies with %s = %s" % ("error" if _err else "result", _nm), **_scn_route)
for _o in OBLIGATIONS:
    if _o["id"] in ("C14.timeout", "C03.owner_leaves") or _o["id"].startswith("C03.route_fault_"):
        if "C02" not in _o["props"]:
            _o["props"].append("C02")      # they carry a C02.response_only_to_the_requester label

# the leaving connection's own readiness registration is removed before / after the peer bookkeeping (then the request's timer)
for _k, _kn in ((1, "owner_disconnect"), (2, "caller_disconnect")):
    for _oe, _on in ((1, "own_event_removed_first"), (2, "own_event_removed_last")):
        O(id="C14.batch_%s_then_expiry_%s" % (_kn, _on), props=["C14", "C03", "C05", "C06", "C07"], entry="harness_batch", defines=["REPLY_FIRST=1", "BATCH_KIND=%d" % _k, "OWN_EVENT=%d" % _oe],
          functions=["handle_events", "eventloop_epoll_add", "eventloop_epoll_remove", "cjet_timer_init", "timer_read", "timer_cancel", "cjet_timer_destroy",
                     "free_peer_resources", "remove_routing_info_from_peer", "remove_peer_from_routes", "request_timeout_handler", "setup_routing_information"],
          symbolic="set value", assumes=["set-up requests succeed", "the timer did expire (reading the timerfd returns one expiration)"],
          bounds="one routed request; one batch of two events (%s then expiry; %s)" % (_kn, _on), **_scn_batch)
_also(["C14.batch_"], ["C14", "C06"])

for _err in (0, 1):
    O(id="C03.reply_to_request_without_id_" + ("error" if _err else "result"), props=["C03", "C07", "C14"], entry="harness_reply_to_request_without_id",
      defines=["REPLY_ERROR=1"] if _err else [], functions=_RF, symbolic="set value, reply payload", assumes=["set-up succeeds"],
      bounds="skeleton: O add 's'; A set without id; O replies; A set without id again; the deadline passes", **_scn_route)

O(id="C10.writev3_step", props=["C10", "C06"], entry="harness_writev3", reach=["short_write_ends_behind_the_first_chunk", "refused"], defines=["L0=1", "L1=2", "L2=1"],
  functions=["buffered_socket_writev", "copy_iovec_to_write_buffer", "copy_single_buffer", "send_buffer"],
  symbolic="pending byte count and write-buffer contents, three frame chunks (lengths 0..1, 0..2, 0..1, contents), kernel verdict of every write call, tracked stream position",
  assumes=["to_write <= W (representation invariant of the write buffer; proved preserved: C10.pending_count_in_bounds)"],
  bounds="W=4, frame = 3 chunks of <= 1, 2, 1 bytes", timeout={"quick": 900, "thorough": 1800}, label_props={"C10.pending_count_in_bounds": ["C10", "C06"]}, **_bs)

# routed ids that all collide into one bucket of the owner's routing table (the later ones live in neighbouring slots)
_scn_route_collide = dict(_scn_route, unit_defines=dict(_scn_route.get("unit_defines", {}), **{"model/wrap/router_abs.c": ["VERIF_HASH_CONST=3"]}))
for _cfg, _sfx, _txt in ((_scn_route, "", "routed ids in distinct buckets"), (_scn_route_collide, "_colliding_ids", "all routed ids collide into bucket 3 (entries wrap around the 4-slot table)")):
    O(id="C03.owner_leaves_two_callers" + _sfx, props=["C03", "C05", "C07", "C17"], entry="harness_owner_leaves_two_callers", functions=_RF, symbolic="set value",
      defines=[] if _sfx else ["THIRD_REQUEST=1"],
      assumes=["set-up succeeds"], bounds="skeleton: O add 's'; A set (id 7); C set (id 8)%s; O disconnects; %s" % ("" if _sfx else "; A set (id 9)", _txt), **dict(_cfg, unwind=8))
O(id="C03.reply_result_colliding_ids", props=["C03", "C02", "C07", "C14"], entry="harness_reply", functions=_RF, symbolic="set value, reply payload", assumes=["set-up succeeds"],
  bounds="as C03.reply_result with every routed id colliding into bucket 3", **_scn_route_collide)
O(id="C03.limit_colliding_ids", props=["C03", "C07"], entry="harness_limit", reach=["refused_at_limit"], functions=_RF, symbolic="set value",
  assumes=["set-up succeeds"], bounds="five sets in flight to one owner, routing table order 2 (4 slots), every routed id colliding into bucket 3", **dict(_scn_route_collide, unwind=8))
O(id="C03.bystander_with_request_colliding_ids", props=["C03", "C05", "C11", "C07"], entry="harness_bystander", defines=["BYSTANDER_HAS_REQUEST=1"], functions=_RF,
  symbolic="set value, reply payload", assumes=["set-up succeeds"], bounds="as C03.bystander_with_request with colliding routed ids", **_scn_route_collide)
O(id="C14.timeout_colliding_ids", props=["C14", "C03", "C07", "C02"], entry="harness_timeout", functions=_RF, symbolic="set value",
  assumes=["set-up succeeds"], bounds="as C14.timeout with colliding routed ids", **_scn_route_collide)

# short histories with two elements / fetches / owners: the subscriber's replica is replayed from its events and compared with the element set
_HIST = ["two_elements_one_owner", "owner_of_two_elements_leaves", "path_re_added_after_remove", "path_re_added_after_owner_left", "unfetch_one_of_three_fetches", "two_owners"]
for _h, _nm in enumerate(_HIST):
    O(id="C01.history_" + _nm, props=["C01", "C04", "C05", "C07"], harness="harness/scn_hist.c", entry="harness_history", defines=["HIST=%d" % _h],
      functions=["add_element_to_peer", "change_state", "remove_element_from_peer", "add_fetch_to_peer", "add_fetch_to_states", "remove_fetch_from_peer", "notify_fetchers", "free_peer_resources"],
      symbolic="three state values", assumes=["the history's requests succeed where the history says so"],
      bounds="3 peers, paths 'x' and 'y', history '%s'" % _nm,
      **dict({k: v for k, v in _scn_guard.items() if k != "harness"}, unwind=22))

# the same routing scenarios with a method and call (arguments relayed as the routed message's params)
for _oid in ("C03.reply_result", "C03.reply_error", "C14.timeout", "C03.owner_leaves", "C03.bystander_with_request", "C05.caller_leaves",
             "C03.route_fault_owner_send_fails", "C03.route_fault_timer_start_fails", "C03.limit", "C03.reply_to_request_without_id_result"):
    _src = [o for o in OBLIGATIONS if o["id"] == _oid][0]
    _new = dict(_src, id=_oid + "_call", defines=list(_src.get("defines", [])) + ["USE_CALL=1"], props=list(_src["props"]),
                bounds=_src["bounds"].replace("A set", "A call").replace("C set", "C call").replace("add 's'", "add method 's'") + " (method + call)")
    OBLIGATIONS.append(_new)

# the rule is applied to elements added AFTER the fetch as well
for _oid in ("C16.rule_equals_a", "C16.rule_equals_A", "C16.rule_equals_ci_A", "C16.rule_contains_all_of_a", "C16.rule_contains_all_of_z", "C16.rule_equals_not_and_contains_z",
             "C16.rule_equals_not_and_contains_a", "C16.rule_ends_with_ci_A", "C16.rule_ends_with_ci_z", "C16.rule_starts_with_ci_A", "C16.rule_contains_ci_A"):
    _src = [o for o in OBLIGATIONS if o["id"] == _oid][0]
    OBLIGATIONS.append(dict(_src, id=_oid.replace("C16.rule_", "C16.rule_fetch_first_"), defines=list(_src.get("defines", [])) + ["FETCH_FIRST=1"], props=list(_src["props"]),
                            bounds=_src["bounds"].replace("A add 'ab'; B fetch", "B fetch").replace("; A change 'ab'", "; A add 'ab'; A change 'ab'")))

for _c, _nm in ((4, "fetch_group_only"), (5, "set_group_only")):
    O(id="C08.visibility_" + _nm, props=["C08"], entry="harness_visibility", defines=["VISCASE=%d" % _c],
      functions=_AF + ["add_fetch_to_state_and_notify", "set_or_call", "fill_access", "get_elements"], symbolic="state value", assumes=["set-up requests succeed"],
      bounds="state 's' with fetchGroups/setGroups [g1]; peer P1 is a member of the %s" % _nm.replace("_", " "), **_scn_auth)

for _b, _nm in ((1, "notification_request_failure"), (2, "single_member"), (3, "failure_first")):
    O(id="C02.batch_" + _nm, props=["C02", "C04"], entry="harness_batch_shapes", defines=["BATCHCASE=%d" % _b], functions=["parse_message", "parse_json_array", "parse_json_rpc", "change_state"],
      symbolic="two state values", assumes=["the set-up add succeeds"], bounds="one batch (%s) after A added 'a'" % _nm.replace("_", " "), **_scn_rpc)

O(id="C19.compress_buffers", props=["C19", "C06"], entry="harness_compress", reach=["compressed", "failed"], unwind=10,
  functions=["websocket_compress"], unwindset={"verif_memcpy.0": 8, "deflate.0": 9},
  symbolic="message length 0..4, the amount deflate consumes / produces, its return code, the produced bytes, context-takeover flag",
  assumes=["allocations succeed", "the caller supplies an output buffer of 2 * length bytes (send_frame does)"], bounds="message <= 4 bytes (output buffer <= 8 bytes)",
  **dict(_c19, stubs=_c19["stubs"] + ["deflate: contract stub (consumes <= avail_in, produces <= avail_out, writes what fits; any return code); deflateEnd/deflateReset: counters"]))

O(id="C19.send_frame_compressed", props=["C19", "C10", "C12", "C06"], entry="harness_send_frame_compressed", reach=["sent_compressed", "sent_uncompressed"],
  functions=["send_frame", "websocket_compress"], symbolic="message length 1..4, frame type text/binary, everything deflate does (amounts, bytes, return code)",
  assumes=["allocations succeed"], bounds="message <= 4 bytes", **dict(_ws, unwind=10, stubs=_ws["stubs"] + ["deflate: contract stub (consumes <= avail_in, produces <= avail_out, writes what fits, any return code)"]))

# (C19.fragmented_message - text_frame_received_comp over two fragments with the inflate stub - ran out of memory at 24 GB even for fragments of <= 2 bytes: not registered, see DESIGN.md 8.5; harness_fragmented is kept in harness/c19_compress.c)
_note_add("C19", "compress_buffers / send_frame_compressed: the deflate driver with a deflate contract stub (writes what fits into the 2*length output buffer, any return code): the result is a length inside the buffer or a reported failure, and send_frame then writes exactly one complete frame - compressed, or the original payload uncompressed when no compressed form is available.",
          "NOT APPLICABLE PART: the lossless round trip and corrupt-stream rejection inside zlib's inflate/deflate (input-length dependent compression loops: not encoded). Offer parsing on symbolic bytes (no verdict in 25 min). Fragmented compressed messages end to end (out of memory, DESIGN.md 8.5). Leaks of the inflate driver's buffers when a stream is rejected (read, not claimed). In the daemon the extension is never enabled (compression level 0).")

for _vt, _nm in enumerate(("null", "false", "empty_string", "empty_array", "empty_object", "zero")):
    O(id="C04.value_travels_" + _nm, props=["C04", "C01", "C03"], entry="harness_value_types_travel", defines=["VTYPE=%d" % _vt],
      functions=["change_state", "notify_fetchers", "set_or_call", "create_routed_message"],
      symbolic="(concrete value of the given type)", assumes=["set-up succeeds"], bounds="O owns state 's', B subscribed; O changes 's' to %s; A sets 's' to %s" % (_nm, _nm), **_scn_guard)
_note_add("C01", "history_*: six short histories with two elements, three fetches or two owners (remove of one of two elements, owner of two elements leaves, a path re-added after remove / after its owner left, unfetch of one of three fetches, two owners): every subscriber's replica, replayed from the events it received, equals the daemon's element set at the end, and no event is spurious or duplicated. table_growth_*: four subscriptions on one element (the element's subscription table doubles). rule_fetch_first_*: the rule is applied to elements added after the fetch.",
          "more than 4 peers / 2 elements / 4 subscriptions per skeleton; both transports (the transport is a recording stub); histories other than the listed skeletons (each step re-establishes the subscription invariant; the induction over arbitrary histories is prose); table growth beyond one doubling (2 -> 4 slots).")
_note_add("C03", "*_call: the same scenarios with a method and call (arguments relayed as the routed message's params). reply_{result,error}_<type>: payloads of five JSON types are relayed unchanged and never answered. *_colliding_ids: every routed id of the owner's table in one bucket. owner_leaves_two_callers: every in-flight request of every caller ends in exactly one error. reply_to_request_without_id_*: requests without id are routed, their answer / expiry is consumed silently and releases record and timer.",
          "routing table order 2 only; one owner per scenario; real timers (timer model: created/armed/fired/destroyed) except in C14.batch_*; ids as text (snprintf stand-in for the two formats).")
_note_add("C02", "batch_* shapes: notification + request + failing request, single member, failing request first. no_answer_*: notifications, stray responses and odd objects. C06.shape_*: hostile shapes are answered with at most one error carrying the id.")
_note_add("C11", "accept_errors: an attempt that failed for reasons of its own does not keep the connection queued behind it from being accepted (edge-triggered listener).")
_note_add("C10", "writev3_step: the same step for a frame gathered from three chunks of different lengths.")

# round 6: exactly the maximum of matchers; zlib parameter plumbing; salt alphabet; passwd after a failed authentication
for _r, _nm, _op, _rch in ((20, "exactly_max_matchers", "a", ["matched"]), (20, "exactly_max_matchers", "z", ["not_matched"]), (21, "max_matchers_plus_option", "A", ["matched"])):
    for _via in (0, 1):
        O(id="C16.%srule_%s_%s" % ("get_" if _via else "", _nm, _op), props=["C16", "C06", "C02"], entry="harness_rule", reach=_rch,
          defines=["RULE=%d" % _r, "OPCHAR='%s'" % _op] + (["VIA_GET=1"] if _via else []),
          functions=["add_fetch_to_peer", "get_elements", "create_fetch", "add_matchers", "create_matcher", "state_matches", "free_fetch"],
          symbolic="state value", assumes=["set-up add of 'ab' succeeds"],
          bounds="skeleton: A add 'ab'; B %s with %s (CONFIG_MAX_NUMBERS_OF_MATCHERS_IN_FETCH = 3)" % ("get" if _via else "fetch", _nm.replace("_", " ")), **_scn_rule)
O(id="C19.stream_parameters", props=["C19"], entry="harness_alloc_compression", reach=["both_streams"], unwind=4,
  functions=["alloc_compression"], symbolic="compression level 1..3, negotiated client and server window bits 8..15, the return codes of inflateInit2 / deflateInit2",
  assumes=[], bounds="none", **dict(_c19, stubs=_c19["stubs"] + ["inflateInit2_/deflateInit2_: record the window bits, any return code"]))
O(id="C20.salt_alphabet", props=["C20"], entry="harness_fill_salt", reach=["long_salt"], functions=["fill_salt"],
  symbolic="salt length 0..16, every byte the random source delivers", assumes=[], bounds="salts <= 16 characters (the longest crypt(3) salt)",
  **dict(_scn_auth, unwindset=dict(_scn_auth["unwindset"], **{"fill_salt.0": 18, "harness_fill_salt.0": 21, "harness_fill_salt.1": 18, "cjet_get_random_bytes.0": 3})))
for _c, _nm in ((9, "after_failed_authentication_as_the_target"), (10, "after_failed_authentication_as_admin"), (11, "after_failed_admin_claim_of_an_authenticated_user")):
    O(id="C20.passwd_" + _nm, props=["C20", "C08", "C02"], entry="harness_passwd", defines=["PWCASE=%d" % _c], reach=["refused"], functions=_AF,
      symbolic="(concrete requester/target)", assumes=["the failed authentication is answered with an error"], bounds="database of 10 users; %s" % _nm.replace("_", " "), **_scn_auth)

for _c, _nm in ((12, "false"), (13, "null"), (14, "number_zero")):
    O(id="C20.passwd_requester_admin_entry_" + _nm, props=["C20", "C08", "C02"], entry="harness_passwd", defines=["PWCASE=%d" % _c], reach=["refused"], functions=_AF + ["is_admin"],
      symbolic="(concrete requester/target)", assumes=["the requester's own authentication succeeds"],
      bounds="database of 13 users; the requester's account carries an \"admin\" entry that is %s; it asks to change another account's password" % _nm.replace("_", " "), **_scn_auth)

_c16s = dict(props=["C16"], harness="harness/c16_strings.c", model=["model/strfn_ref.c"], stubs=["libc strcasecmp/strncasecmp/strcasestr: model/strfn_ref.c (\"C\" locale)"], assumes=[])
O(id="C16.strcasecmp_leaf", entry="harness_strcasecmp", unwind=7, reach=["equal_by_folding"], functions=["jet_strcasecmp", "jet_strncasecmp"],
  symbolic="two strings of 0..4 arbitrary non-NUL bytes each, n in 0..5", bounds="strings <= 4 bytes", **_c16s)
O(id="C16.strcasestr_leaf", entry="harness_strcasestr", unwind=7, reach=["found_behind_partial_match"], functions=["jet_strcasestr"],
  symbolic="haystack and needle of 0..4 arbitrary non-NUL bytes each", bounds="strings <= 4 bytes (covers a needle with a repeated prefix behind one more repetition: 'aab' in 'aaab')", **_c16s)

O(id="C16.strcasecmp_leaf_len8", entry="harness_strcasecmp", unwind=11, defines=["SL=8"], reach=["equal_by_folding"], functions=["jet_strcasecmp", "jet_strncasecmp"],
  symbolic="two strings of 0..8 arbitrary non-NUL bytes each, n in 0..9", bounds="strings <= 8 bytes", **_c16s)
O(id="C16.strcasestr_leaf_len8", entry="harness_strcasestr", unwind=11, defines=["SL=8"], reach=["found_behind_partial_match"], functions=["jet_strcasestr"],
  symbolic="haystack and needle of 0..8 arbitrary non-NUL bytes each", bounds="strings <= 8 bytes", **_c16s)

# ------------------------------------------------------------------------------------------------ round 6 (groups A, B) strengthening
O(id="C01.history_own_fetch", props=["C01", "C04", "C07"], harness="harness/scn_hist.c", entry="harness_history", defines=["HIST=6"],
  functions=["add_element_to_peer", "find_fetchers_for_element", "change_state", "add_fetch_to_peer", "notify_fetchers"],
  symbolic="state values", assumes=["the history's requests succeed"], bounds="A fetches and B fetches; A adds and changes 'x' itself",
  **dict({k: v for k, v in _scn_guard.items() if k != "harness"}, unwind=22))
O(id="C03.two_requests_without_id", props=["C03", "C07"], entry="harness_two_requests_without_id", functions=_RF, symbolic="set value", assumes=["set-up succeeds"],
  bounds="skeleton: O add 's'; A set without id twice; O answers both", **_scn_route)
O(id="C03.owner_leaves_after_element_removed", props=["C03", "C05", "C07"], entry="harness_owner_leaves_after_element_removed", functions=_RF + ["remove_element_from_peer"],
  symbolic="set value", assumes=["set-up succeeds"], bounds="skeleton: O add 's'; A set; O remove 's'; O disconnects", **_scn_route)
for _i, _nm in ((42, "unfetch_numeric_id_of_string_fetch"), (43, "fetch_numeric_id_bad_rule")):
    O(id="C06.shape_" + _nm, props=["C06", "C02", "C04"], entry="harness_shape", defines=["SHAPE=%d" % _i], reach=["refused", "with_id"],
      functions=["parse_message", "remove_fetch_from_peer", "add_fetch_to_peer", "find_fetch", "ids_equal"],
      symbolic="the numeric id", assumes=["set-up (O add 's', B fetch-all with the string id 'fb') succeeds"],
      bounds="one message of shape '%s' by B; 3 peers, 1 element, 1 subscription" % _nm, **_scn_shape)
for _via in (0, 1):
    O(id="C16.%srule_contains_all_of_with_number_a" % ("get_" if _via else ""), props=["C16", "C06", "C07"], entry="harness_rule", reach=["refused"],
      defines=["RULE=22", "OPCHAR='a'"] + (["VIA_GET=1"] if _via else []), functions=["create_fetch", "add_matchers", "create_matcher", "fill_path_elements", "free_fetch"],
      symbolic="state value", assumes=["set-up add of 'ab' succeeds"], bounds="containsAllOf ['a', 'b', 3] in a %s" % ("get" if _via else "fetch"), **_scn_rule)
for _k, _kn in ((1, "owner_disconnect"), (2, "caller_disconnect")):
    O(id="C14.batch_%s_with_writable_event" % _kn, props=["C14", "C05", "C06", "C11"], entry="harness_batch", defines=["REPLY_FIRST=1", "BATCH_KIND=%d" % _k, "OWN_EVENT=3"],
      functions=["handle_events", "eventloop_epoll_add", "eventloop_epoll_remove", "free_peer_resources", "timer_read"],
      symbolic="set value", assumes=["set-up requests succeed"],
      bounds="one batch: the connection is readable AND writable, its read handler tears it down (registration removed) and reports 'continue'; then the request's expired timer", **_scn_batch)
_also(["C14.batch_"], ["C14", "C06"])
_also(["C16.match_functions", "C16.conjunction"], ["C01"])      # which paths a rule selects decides which elements a fetch replica contains
# a request answered with an error under allocation failure left everything as it was: C04's last clause
for _o in OBLIGATIONS:
    if _o["id"].startswith(("C15.alloc_failure_change_", "C15.alloc_failure_add_")):
        if "C04" not in _o["props"]:
            _o["props"].append("C04")
        _lp = _o.setdefault("label_props", {})
        for _l in ("C15.change_answered_with_error_changed_nothing", "C15.add_answered_with_error_created_nothing", "C15.state_keeps_a_value"):
            _lp[_l] = ["C15", "C04"]

# C15 for the creation of a websocket peer: each allocation attempt made while a valid start line is handled fails in turn
for _k in range(4):
    O(id="C15.alloc_failure_ws_peer_k%d" % _k, props=["C15", "C13", "C07", "C06"], entry="harness_request_line", defines=["PARSER_MODE=0", "ALLOC_FAIL=%d" % _k],
      functions=["read_start_line", "alloc_websocket_peer", "init_websocket_peer", "init_peer", "add_routing_table", "websocket_init", "free_websocket_peer_on_error", "free_peer_resources"],
      symbolic="(the failing allocation attempt, #%d, is fixed per obligation)" % _k, assumes=["the connection object itself exists"],
      bounds="one valid request line for the websocket target; allocation attempt %d fails; then the connection ends" % _k, **_scn_http)

O(id="C15.socket_peer_init_failure", props=["C15", "C09"], entry="harness_init_failure", reach=["init_failed", "init_ok"], functions=["init_socket_peer"],
  symbolic="whether init_peer fails (its routing table cannot be allocated)", assumes=[], bounds="none", **_sp)
_note_add("C15", "reply: the owner's reply to a routed request (the answer for the caller is built under allocation failure). alloc_failure_ws_peer_k*: each allocation made while a valid websocket start line is handled (peer object, routing table) fails in turn: answered 500 or served, nothing left behind, the connection's end is safe. socket_peer_init_failure: a raw peer whose initialisation failed is not put into service.",
          "the failing attempt is enumerated by the runner (one obligation per attempt), not a solver variable: a symbolic index made every allocation site fork and gave no verdict in 400 s even for a window of 4; only the data is symbolic. Multi-fault runs; teardown paths under failure; failures inside the real cJSON (the model allocates at the same granularity).")
