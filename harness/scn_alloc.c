/* C15 - any single allocation failure during one request: no invalid memory access (CBMC's pointer checks on the
 * real handlers), at most one response, a refused request changes nothing, and after the peers are gone the
 * allocator's live-block count is back at its baseline. The failing allocation is symbolic (k-th allocation
 * attempt of the step, counting daemon and JSON-library allocations alike). */
#include "scn.h"
#include "hash_abs.h"
#ifndef STEP
#define STEP 0
#endif
#ifndef KBASE
#define KBASE 0
#endif
#ifndef NALLOC
#define NALLOC 0
#endif
#ifndef SLACK
#define SLACK 3
#endif

const cJSON *credentials_ok(const char *u, char *p) { (void)u; (void)p; return 0; }
cJSON *change_password(const struct peer *p, const cJSON *r, const char *u, char *pw) { (void)p; (void)r; (void)u; (void)pw; return 0; }
static struct peer A, B;
extern cJSON *model_parse_result;
static int dispatch(struct peer *p, cJSON *req) { model_parse_result = req; return parse_message("x", 1, p); }

void harness_alloc_failure(void)
{
	__CPROVER_assume(element_hashtable_create() == 0);
	long baseline = verif_live_blocks;
	mkpeer(&A, true); mkpeer(&B, true);
	int v = (int)nd_range(0, 999);
	/* set-up without faults */
	scn_build_begin();
#if STEP != 0
	cJSON *add = mkreq("add", 1, path_params("a", 5));
#endif
#if STEP == 2 || STEP == 3 || STEP == 4
	cJSON *fetch = mkreq("fetch", 2, fetch_params("f"));
#endif
#if STEP == 9
	cJSON *fetch1 = mkreq("fetch", 2, fetch_params("f1")), *fetch2 = mkreq("fetch", 3, fetch_params("f2"));   /* fill the initial subscription table (2 slots) */
#endif
#if STEP == 10
	cJSON *set0 = mkreq("set", 7, path_params("a", 3));       /* B's request, routed to the owner A: the step under test is A's reply */
#endif
	scn_build_end();
#if STEP != 0
	__CPROVER_assume(dispatch(&A, add) == 0);
#endif
#if STEP == 2 || STEP == 3 || STEP == 4
	__CPROVER_assume(dispatch(&B, fetch) == 0);
#endif
#if STEP == 9
	__CPROVER_assume(dispatch(&B, fetch1) == 0 && dispatch(&B, fetch2) == 0);
#endif
#if STEP == 10
	reset_log();
	__CPROVER_assume(dispatch(&B, set0) == 0 && nlog == 1 && LOG[0].kind == K_ROUTED && LOG[0].to == &A);
	char routed_id[20]; cpystr(routed_id, sizeof(routed_id), LOG[0].id_str);
#endif
	/* the request under test */
	scn_build_begin();
#if STEP == 0
	cJSON *req = mkreq("add", 7, path_params("a", v)); struct peer *actor = &A;
#elif STEP == 1
	cJSON *req = mkreq("fetch", 7, fetch_params("f")); struct peer *actor = &B;
#elif STEP == 2
	cJSON *req = mkreq("change", 7, path_params("a", v)); struct peer *actor = &A;
#elif STEP == 3
	cJSON *req = mkreq("remove", 7, path_params("a", NO_VALUE)); struct peer *actor = &A;
#elif STEP == 4
	cJSON *req = mkreq("unfetch", 7, fetch_params("f")); struct peer *actor = &B;
#elif STEP == 5
	cJSON *req = mkreq("set", 7, path_params("a", v)); struct peer *actor = &B;
#elif STEP == 6
	cJSON *req = mkreq("get", 7, cJSON_CreateObject()); struct peer *actor = &B;
#elif STEP == 7
	cJSON *cp = cJSON_CreateObject(); cJSON_AddItemToObject(cp, "name", cJSON_CreateString("n")); cJSON *req = mkreq("config", 7, cp); struct peer *actor = &B;
#elif STEP == 8
	cJSON *req = mkreq("info", 7, 0); struct peer *actor = &B;
#elif STEP == 9
	cJSON *req = mkreq("fetch", 7, fetch_params("f3")); struct peer *actor = &B;      /* third subscription: the element's table has to grow */
#elif STEP == 10
	/* the owner's reply: a response object; the answer it produces goes to the caller B under B's id 7 */
	cJSON *req = cJSON_CreateObject(); cJSON_AddItemToObject(req, "id", cJSON_CreateString(routed_id)); cJSON_AddItemToObject(req, "result", mknumber(v));
	struct peer *actor = &B; struct peer *sender = &A;
#endif
	scn_build_end();
	reset_log();
	/* the failing allocation attempt is fixed per obligation (the runner enumerates 0..N-1 for each handler, N = number
	   of allocation attempts of the fault-free request): with a symbolic index every allocation site forks and the
	   merged heap defeats constant propagation (no verdict in 400 s even for a window of 4). Data stays symbolic. */
	long k = KBASE;
	verif_alloc_calls = 0; verif_alloc_failed = 0;
	verif_fail_at = k;
#if STEP == 10
	int r = dispatch(sender, req);
#else
	int r = dispatch(actor, req);
#endif
	verif_fail_at = -1;
	(void)r;
#ifdef VERIF_REPLAY
	printf("ALLOC-CALLS step=%d %ld\n", STEP, verif_alloc_calls);
#endif
	int answers = 0; for (int i = 0; i < nlog; i++) if (LOG[i].kind == K_RESPONSE && LOG[i].to == actor && LOG[i].id_int == 7) answers++;
	CHECK(answers <= 1, "C15.at_most_one_response_under_allocation_failure");
	struct sent *resp = 0; for (int i = 0; i < nlog; i++) if (LOG[i].kind == K_RESPONSE && LOG[i].to == actor) resp = &LOG[i];
	if (resp) CHECK(resp->has_result != resp->is_error, "C15.response_still_has_result_xor_error");
#if STEP == 10
	if (!verif_alloc_failed) CHECK(answers == 1 && resp && resp->has_result && resp->value_int == v && count_responses(&A) == 0, "C15.request_succeeds_without_failure");
	CHECK(timers_alive() == 0, "C15.no_timer_left");
#elif STEP == 5
	if (!verif_alloc_failed) CHECK(answers == 0 && count_kind(&A, K_ROUTED) == 1, "C15.request_succeeds_without_failure");
#else
	if (!verif_alloc_failed) CHECK(answers == 1 && resp && resp->has_result, "C15.request_succeeds_without_failure");
#endif
	/* self-check of the enumeration: obligations exist for the attempts 0 .. NALLOC+SLACK (NALLOC = attempts of the
	   fault-free request on the tree the table was measured on). A tree whose request allocates up to SLACK times more is
	   still covered attempt by attempt; beyond that the enumeration is stale (reported as a broken check, not a violation) */
	if (!verif_alloc_failed) __CPROVER_assert(verif_alloc_calls <= NALLOC + SLACK, "META.enumeration_covers_every_allocation_attempt");
	struct element *e = element_table_get("a");
#if STEP == 0
	if (resp && resp->is_error) CHECK(e == 0, "C15.add_answered_with_error_created_nothing");
#elif STEP == 2
	if (resp && resp->is_error) CHECK(e && e->value && e->value->valueint == 5, "C15.change_answered_with_error_changed_nothing");
	if (e) CHECK(e->value != 0, "C15.state_keeps_a_value");
#endif
#if STEP != 0 && STEP != 3
	/* the daemon keeps serving: a fault-free change of the element by its owner is carried out and reaches whoever is subscribed */
	{
		scn_build_begin(); cJSON *again = mkreq("change", 8, path_params("a", 6)); scn_build_end();
		reset_log();
		int r2 = dispatch(&A, again);
		struct sent *a2 = last_of(&A, K_RESPONSE);
		CHECK(r2 == 0 && a2 && a2->has_result && a2->id_int == 8, "C15.daemon_keeps_serving_after_the_failure");
		e = element_table_get("a");
		CHECK(e && e->value && e->value->valueint == 6, "C15.later_change_takes_effect");
	}
#endif
	/* everything goes away with the peers */
	free_peer_resources(&B);
	free_peer_resources(&A);
	CHECK(element_table_get("a") == 0, "C15.elements_gone_with_owner");
	CHECK(timers_alive() == 0, "C15.no_timer_left");
	CHECK(verif_live_blocks == baseline, "C15.accounting_back_to_baseline");
	WITNESS_END();
}
