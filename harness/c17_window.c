/* C17 - the edge of the hop window (32 slots) of the real hopscotch table macros, which the inductive steps at
 * order 2/3 cannot reach (there the insertion range is smaller than the hop window): order 7 (128 slots, insertion
 * range 64), a bucket whose window is (almost) full, concrete layout around a base bucket (-DBASE, incl. wrap-around),
 * symbolic fill level / values. Exercises the free_distance == hop_range boundary and find_closer_entry (displacement).
 *   -DLAYOUT=0: n = FILL = 31 or 32 keys homed at BASE in BASE..BASE+n-1, the next slot free, nothing can be displaced
 *   -DLAYOUT=1: as 0 with n = 32, but slot BASE+20 holds a key homed at BASE+20: displacement makes room
 *   -DLAYOUT=2: as 1, and the insertion range beyond the window is occupied by keys homed in their own slots up to
 *               BASE+40: the free slot is found at distance 41, outside the window, and has to be moved inside it
 *   -DLAYOUT=3: the window of BASE is occupied by foreign keys: 32 keys homed at BASE-24 fill BASE-24..BASE+7, keys homed in
 *               their own slots fill BASE+8..BASE+32; the free slot BASE+33 is moved to BASE+8 by displacing that slot's key */
#include "verif.h"
#include <stdlib.h>
#include <string.h>

#define ORDER 7
#define SIZE (1u << ORDER)
#define NKEYS 64
static uint32_t H[NKEYS + 1];       /* abstract hash: home bucket of key k is H[k] (keys 1..NKEYS) */
static inline uint32_t abs_hash32(uint32_t key, unsigned int order) { (void)order; return H[key <= NKEYS ? key : 0]; }
static inline uint32_t abs_hash64(uint64_t key, unsigned int order) { (void)order; return H[0]; }

#define hs_hash32 real_hs_hash32
#define hs_hash6432shift real_hs_hash6432shift
#include "hashtable.h"
#undef hs_hash32
#undef hs_hash6432shift
#define hs_hash32 abs_hash32
#define hs_hash6432shift abs_hash64

DECLARE_HASHTABLE_UINT32(T, ORDER, 1)
typedef struct hashtable_uint32_t slot_t;
#define KINVALID ((uint32_t)HASHTABLE_INVALIDENTRY)

static slot_t TABLE[SIZE];
static char VALS[NKEYS + 2];
void *cjet_malloc(size_t s) { (void)s; return 0; }
void cjet_free(void *p) { (void)p; }

#define W(x) (((uint32_t)(x)) & (SIZE - 1))
static void place(uint32_t key, uint32_t home, uint32_t slot)
{
	H[key] = W(home);
	TABLE[W(slot)].key = key;
	TABLE[W(slot)].value.vals[0] = &VALS[key];
	TABLE[W(home)].hop_info |= UINT32_C(1) << W(slot - home);
}

/* representation invariant with the real window of 32 */
static int inv(void)
{
	for (uint32_t h = 0; h < SIZE; h++)
		for (uint32_t d = 0; d < 32; d++)
			if (TABLE[h].hop_info & (UINT32_C(1) << d)) {
				uint32_t k = TABLE[W(h + d)].key;
				if (k == KINVALID || k > NKEYS || H[k] != h) return 0;
			}
	for (uint32_t s = 0; s < SIZE; s++) {
		uint32_t k = TABLE[s].key;
		if (k == KINVALID) continue;
		if (k == 0 || k > NKEYS) return 0;
		uint32_t d = W(s - H[k]);
		if (d >= 32 || !(TABLE[H[k]].hop_info & (UINT32_C(1) << d))) return 0;
	}
	return 1;
}

void harness_window(void)
{
	for (uint32_t s = 0; s < SIZE; s++) { TABLE[s].key = KINVALID; TABLE[s].hop_info = 0; TABLE[s].value.vals[0] = 0; }
	uint32_t n = 32, residents = 0;
#if LAYOUT == 0
	n = FILL;                    /* 31 or 32, fixed per obligation (a symbolic fill level defeats constant propagation: no verdict in 15 min) */
	for (uint32_t i = 0; i < 32; i++) if (i < n) place(i + 1, BASE, BASE + i);
	residents = n;
#elif LAYOUT == 3
	for (uint32_t i = 0; i < 32; i++) place(i + 1, BASE - 24 + SIZE, BASE - 24 + SIZE + i);
	for (uint32_t i = 8; i <= 32; i++) place(32 + i - 7, BASE + i, BASE + i);
	residents = 57;
#else
	for (uint32_t i = 0; i < 32; i++) { if (i == 20) place(i + 1, BASE + 20, BASE + 20); else place(i + 1, BASE, BASE + i); }
	residents = 32;
#if LAYOUT == 2
	for (uint32_t i = 32; i <= 40; i++) place(i + 1, BASE + i, BASE + i);
	residents = 41;
#endif
#endif
	CHECK(inv(), "META.constructed_table_satisfies_the_invariant");
	const uint32_t K = 60;
	H[K] = W(BASE);
	struct value_T v, out;
	v.vals[0] = &VALS[nd_range(0, NKEYS + 1)];
	out.vals[0] = (void *)&H[0];
	int r = HASHTABLE_PUT(T, TABLE, K, v, &out);
	CHECK(inv(), "C17.put_preserves_invariant");
	CHECK(out.vals[0] == 0, "C17.put_no_previous_value_for_new_key");
	/* every key that was stored is still found, with its value, through the real lookup */
	for (uint32_t k = 1; k <= 57; k++) if (k <= residents) {
		struct value_T g; g.vals[0] = 0;
		int gr = HASHTABLE_GET(T, TABLE, k, &g);
		CHECK(gr == HASHTABLE_SUCCESS && g.vals[0] == &VALS[k], "C17.put_leaves_other_keys_alone");
	}
	struct value_T g; g.vals[0] = 0;
	int gr = HASHTABLE_GET(T, TABLE, K, &g);
	if (r == HASHTABLE_SUCCESS) {
		CHECK(gr == HASHTABLE_SUCCESS && g.vals[0] == v.vals[0], "C17.put_then_get_returns_new_value");
		REACH("inserted");
	} else {
		CHECK(r == HASHTABLE_FULL, "C17.put_result_code");
		CHECK(gr == HASHTABLE_INVALIDENTRY, "C17.refused_put_changes_nothing");
		REACH("refused");
	}
#if LAYOUT == 0
	/* 31 keys: the last slot of the window is free and must be used; 32 keys: no slot inside the window can be
	   freed (every candidate bucket is empty), so the put has to be refused */
	if (n == 31) CHECK(r == HASHTABLE_SUCCESS, "C17.free_slot_inside_window_is_used");
	else CHECK(r == HASHTABLE_FULL, "C17.put_refused_when_nothing_in_the_window_can_move");
#else
	CHECK(r == HASHTABLE_SUCCESS, "C17.displacement_makes_room_inside_the_window");
#endif
	/* and the key can be removed again, leaving the table consistent */
	if (r == HASHTABLE_SUCCESS) {
		int rr = HASHTABLE_REMOVE(T, TABLE, K, &out);
		CHECK(rr == HASHTABLE_SUCCESS && out.vals[0] == v.vals[0] && inv(), "C17.remove_returns_stored_value");
		CHECK(HASHTABLE_GET(T, TABLE, K, &g) == HASHTABLE_INVALIDENTRY, "C17.removed_key_is_gone");
	}
	WITNESS_END();
}
