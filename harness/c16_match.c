/* C16 - the twelve match functions of src/fetch.c against byte-wise reference predicates, and the conjunction */
#include "verif.h"
#include <stddef.h>
#include <string.h>
#include <strings.h>
#include <stdlib.h>

#define SL 3       /* strings up to SL bytes + NUL, every byte value */

/* libc string functions the matchers use: reference implementations ("C" locale semantics) */
static int lower(int c) { return (c >= 'A' && c <= 'Z') ? c + 32 : c; }
static size_t v_strlen(const char *s) { size_t n = 0; while (s[n]) n++; return n; }
static int v_strcmp(const char *a, const char *b) { size_t i = 0; for (;; i++) { unsigned char x = a[i], y = b[i]; if (x != y) return x < y ? -1 : 1; if (!x) return 0; } }
static int v_strncmp(const char *a, const char *b, size_t n) { for (size_t i = 0; i < n; i++) { unsigned char x = a[i], y = b[i]; if (x != y) return x < y ? -1 : 1; if (!x) return 0; } return 0; }
static int v_strcasecmp(const char *a, const char *b) { size_t i = 0; for (;; i++) { int x = lower((unsigned char)a[i]), y = lower((unsigned char)b[i]); if (x != y) return x < y ? -1 : 1; if (!x) return 0; } }
static int v_strncasecmp(const char *a, const char *b, size_t n) { for (size_t i = 0; i < n; i++) { int x = lower((unsigned char)a[i]), y = lower((unsigned char)b[i]); if (x != y) return x < y ? -1 : 1; if (!x) return 0; } return 0; }
static char *v_strstr(const char *h, const char *n) { size_t nl = v_strlen(n); for (size_t i = 0;; i++) { if (v_strncmp(h + i, n, nl) == 0) return (char *)(h + i); if (!h[i]) return 0; } }
static char *v_strcasestr(const char *h, const char *n) { size_t nl = v_strlen(n); for (size_t i = 0;; i++) { if (v_strncasecmp(h + i, n, nl) == 0) return (char *)(h + i); if (!h[i]) return 0; } }
#define strlen v_strlen
#define strcmp v_strcmp
#define strncmp v_strncmp
#define strstr v_strstr
int jet_strcasecmp(const char *a, const char *b) { return v_strcasecmp(a, b); }
int jet_strncasecmp(const char *a, const char *b, size_t n) { return v_strncasecmp(a, b, n); }
const char *jet_strcasestr(const char *h, const char *n) { return v_strcasestr(h, n); }
#include "fetch.c"
#undef strlen
#undef strcmp
#undef strncmp
#undef strstr

/* reference predicates written from the protocol description, on (length, bytes) */
static int eqc(char a, char b, int ci) { return ci ? lower((unsigned char)a) == lower((unsigned char)b) : a == b; }
static int ref_equals(const char *p, size_t pl, const char *o, size_t ol, int ci) { if (pl != ol) return 0; for (size_t i = 0; i < SL; i++) if (i < pl && !eqc(p[i], o[i], ci)) return 0; return 1; }
static int ref_at(const char *p, size_t pl, const char *o, size_t ol, size_t off, int ci) { if (off + ol > pl) return 0; for (size_t i = 0; i < SL; i++) if (i < ol && !eqc(p[off + i], o[i], ci)) return 0; return 1; }
static int ref_starts(const char *p, size_t pl, const char *o, size_t ol, int ci) { return ref_at(p, pl, o, ol, 0, ci); }
static int ref_ends(const char *p, size_t pl, const char *o, size_t ol, int ci) { return ol <= pl && ref_at(p, pl, o, ol, pl - ol, ci); }
static int ref_contains(const char *p, size_t pl, const char *o, size_t ol, int ci) { for (size_t off = 0; off <= SL; off++) if (off <= pl && ref_at(p, pl, o, ol, off, ci)) return 1; return 0; }

static void any_string(char *s, size_t *len)
{
	*len = nd_size(); __CPROVER_assume(*len <= SL);
	for (size_t i = 0; i <= SL; i++) { char c = (char)nd_u8(); if (i < *len) { __CPROVER_assume(c != 0); s[i] = c; } else s[i] = 0; }
}

void harness_match(void)
{
	char path[SL + 1], op[SL + 1], op2[SL + 1]; size_t pl, ol, ol2;
	any_string(path, &pl); any_string(op, &ol); any_string(op2, &ol2);
	/* allocated the way create_path_matcher() does for two operands (struct with a trailing one-element array) */
	struct path_matcher *pm = malloc(sizeof(*pm) + sizeof(pm->path_elements) * (2 - 1));
	__CPROVER_assume(pm != 0);
	pm->number_of_path_elements = 2; pm->path_elements[0] = op; pm->path_elements[1] = op2;
	CHECK((equals_match(pm, path) != 0) == ref_equals(path, pl, op, ol, 0), "C16.equals");
	CHECK((equals_match_ignore_case(pm, path) != 0) == ref_equals(path, pl, op, ol, 1), "C16.equals_ignoring_case");
	CHECK((equalsnot_match(pm, path) != 0) == !ref_equals(path, pl, op, ol, 0), "C16.equalsNot");
	CHECK((equalsnot_match_ignore_case(pm, path) != 0) == !ref_equals(path, pl, op, ol, 1), "C16.equalsNot_ignoring_case");
	CHECK((startswith_match(pm, path) != 0) == ref_starts(path, pl, op, ol, 0), "C16.startsWith");
	CHECK((startswith_match_ignore_case(pm, path) != 0) == ref_starts(path, pl, op, ol, 1), "C16.startsWith_ignoring_case");
	CHECK((endswith_match(pm, path) != 0) == ref_ends(path, pl, op, ol, 0), "C16.endsWith");
	CHECK((endswith_match_ignore_case(pm, path) != 0) == ref_ends(path, pl, op, ol, 1), "C16.endsWith_ignoring_case");
	CHECK((contains_match(pm, path) != 0) == ref_contains(path, pl, op, ol, 0), "C16.contains");
	CHECK((contains_match_ignore_case(pm, path) != 0) == ref_contains(path, pl, op, ol, 1), "C16.contains_ignoring_case");
	CHECK((containsallof_match(pm, path) != 0) == (ref_contains(path, pl, op, ol, 0) && ref_contains(path, pl, op2, ol2, 0)), "C16.containsAllOf");
	CHECK((containsallof_match_ignore_case(pm, path) != 0) == (ref_contains(path, pl, op, ol, 1) && ref_contains(path, pl, op2, ol2, 1)), "C16.containsAllOf_ignoring_case");
	if (pl == SL && ol == 2) REACH("long_path");
	free(pm);
	WITNESS_END();
}

/* conjunction over the matchers of a fetch: result = AND of all, fetch-all iff no matcher */
static int verdicts[3], calls;
static int m0(const struct path_matcher *pm, const char *p) { (void)pm; (void)p; calls++; return verdicts[0]; }
static int m1(const struct path_matcher *pm, const char *p) { (void)pm; (void)p; calls++; return verdicts[1]; }
static int m2(const struct path_matcher *pm, const char *p) { (void)pm; (void)p; calls++; return verdicts[2]; }
void harness_conjunction(void)
{
	struct path_matcher p0 = {.match_function = m0}, p1 = {.match_function = m1}, p2 = {.match_function = m2};
	unsigned n = (unsigned)nd_range(1, 3);
	struct fetch *f = calloc(1, sizeof(*f) + sizeof(f->matcher) * (3 - 1));     /* as alloc_fetch() does */
	__CPROVER_assume(f != 0);
	f->number_of_matchers = n;
	f->matcher[0] = nd_bool() ? &p0 : 0;
	f->matcher[1] = &p1; f->matcher[2] = &p2;
	if (f->matcher[0] == 0) __CPROVER_assume(n == 1);        /* fetch-all is created with one empty slot */
	for (int i = 0; i < 3; i++) verdicts[i] = nd_bool();
	struct element e; char path[2] = "a"; e.path = path;
	int r = state_matches(&e, f);
	if (f->matcher[0] == 0) { CHECK(r == 1 && calls == 0, "C16.no_rule_selects_everything"); REACH("fetch_all"); }
	else {
		int want = 1; for (unsigned i = 0; i < 3; i++) if (i < n && !verdicts[i]) want = 0;
		CHECK((r != 0) == want, "C16.result_is_conjunction_of_all_matchers");
	}
	free(f);
	WITNESS_END();
}
