/* Leaf obligations over the real src/peer.c: C06.log_line, C08.fresh_peer_groups */
#include "verif.h"
#include <stdio.h>
#include <stdarg.h>
#include <string.h>

/* contract stubs for the formatting functions (C99 7.19.6.5/12): at most size bytes are written to buf (none if
   size is 0), the return value is the length the complete output would have had */
static int would_be_len;          /* symbolic: strlen(peer name) + 2 */
static int fmt_calls;
static void touch(char *buf, size_t size)
{
	if (size > 0) {
		size_t k = nd_size();
		__CPROVER_assume(k < size);
		buf[k] = 'x';             /* an arbitrary one of the positions the function may write */
		buf[0] = 0;
	}
}
int verif_snprintf(char *buf, size_t size, const char *fmt, ...) { (void)fmt; fmt_calls++; touch(buf, size); return would_be_len; }
int verif_vsnprintf(char *buf, size_t size, const char *fmt, va_list ap) { (void)fmt; (void)ap; fmt_calls++; touch(buf, size); return 3; }
#define snprintf verif_snprintf
#define vsnprintf verif_vsnprintf
#include "peer.c"
#undef snprintf
#undef vsnprintf

static int log_calls;
void log_err(const char *f, ...) { (void)f; log_calls++; }
void log_info(const char *f, ...) { (void)f; log_calls++; }
void cjet_free(void *p) { (void)p; }
char *duplicate_string(const char *s) { (void)s; return 0; }
static int rt_fail;
int add_routing_table(struct peer *p) { if (rt_fail) return -1; p->routing_table = (void *)&rt_fail; return 0; }
void delete_routing_table(struct peer *p) { (void)p; }
void remove_routing_info_from_peer(const struct peer *p) { (void)p; }
void remove_peer_from_routing_table(const struct peer *p, const struct peer *r) { (void)p; (void)r; }
void remove_all_fetchers_from_peer(struct peer *p) { (void)p; }
void remove_all_elements_from_peer(struct peer *p) { (void)p; }

/* C06.log_line: the peer name is chosen by the client (config request); any name length up to 130 */
void harness_log_line(void)
{
	static struct peer P;
	static char name[4] = "abc";
	P.name = nd_bool() ? name : (char *)0;
	would_be_len = (int)nd_range(2, 132);     /* "<name>: " for names of 0..130 characters */
	if (nd_bool()) log_peer_err(&P, "x %d", 1); else log_peer_info(&P, "x %d", 1);
	CHECK(fmt_calls == 2 && log_calls == 1, "C06.log_line_emitted_once");
	if (would_be_len >= 100) REACH("long_name");
	WITNESS_END();
}

/* C08.fresh_peer_groups: a peer object comes from a non-zeroing allocation; after init_peer it holds no groups */
void harness_fresh_peer(void)
{
	struct peer *p = malloc(sizeof(*p));
	__CPROVER_assume(p != 0);
	p->fetch_groups = nd_u32(); p->set_groups = nd_u32(); p->call_groups = nd_u32();   /* arbitrary heap garbage */
	rt_fail = nd_bool();
	int before = get_number_of_peers();
	int r = init_peer(p, nd_bool(), 0);
	if (r == 0) {
		CHECK(p->fetch_groups == 0 && p->set_groups == 0 && p->call_groups == 0, "C08.fresh_peer_holds_no_groups");
		CHECK(p->name == 0 && p->user_name == 0, "C08.fresh_peer_is_anonymous");
		CHECK(get_number_of_peers() == before + 1, "C07.peer_counted_once");
		free_peer_resources(p);
		CHECK(get_number_of_peers() == before, "C07.peer_count_back_to_baseline");
		CHECK(list_empty(get_peer_list()), "C05.peer_unlinked_from_list");
		REACH("peer_created");
	} else {
		CHECK(get_number_of_peers() == before && list_empty(get_peer_list()), "C15.failed_init_leaves_no_peer");
		REACH("init_failed");
	}
	free(p);
	WITNESS_END();
}
