/* Leaf obligations over the real src/socket_peer.c (raw transport framing): C09.length_prefix, C10.raw_header, C05 */
#include "verif.h"
#include <string.h>
#include <stdlib.h>
#include "socket_peer.c"

void log_err(const char *f, ...) { (void)f; }
void log_warn(const char *f, ...) { (void)f; }
static int peer_freed, parse_calls, parse_verdict; static const char *parse_msg; static size_t parse_len;
void free_peer_resources(struct peer *p) { (void)p; peer_freed++; }
void cjet_free(void *p) { (void)p; }
void *cjet_malloc(size_t n) { return malloc(n); }
static int init_peer_fails;
int init_peer(struct peer *p, bool local, struct eventloop *loop) { (void)p; (void)local; (void)loop; return init_peer_fails ? -1 : 0; }
int parse_message(const char *msg, size_t length, struct peer *p) { (void)p; parse_calls++; parse_msg = msg; parse_len = length; return parse_verdict; }

static int closes, writes; static size_t req_num; static void *req_cb; static int reqs;
static uint8_t hdr_copy[4]; static const void *pay_ptr; static size_t pay_len, hdr_len; static unsigned iov_count;
static int s_close(void *t) { (void)t; closes++; return 0; }
static int s_read_exactly(void *t, size_t n, enum bs_read_callback_return (*cb)(void *, uint8_t *, size_t), void *c)
{ (void)t; (void)c; CHECK(!closes, "C05.no_read_request_after_close"); reqs++; req_num = n; req_cb = (void *)cb; return 0; }
static int s_writev(void *t, struct socket_io_vector *iov, unsigned int count)
{
	(void)t; writes++; iov_count = count;
	hdr_len = iov[0].iov_len; for (int i = 0; i < 4; i++) hdr_copy[i] = ((const uint8_t *)iov[0].iov_base)[i];
	pay_ptr = iov[1].iov_base; pay_len = iov[1].iov_len;
	return 0;
}
static struct socket_peer SP;
#include "buffered_socket.h"
static struct buffered_socket BSK;
static void mk(void)
{
	struct buffered_reader br = { .this_ptr = &BSK, .close = s_close, .read_exactly = s_read_exactly, .writev = s_writev };
	init_socket_peer(&SP, &br, true);
}

/* C15: a peer whose initialisation failed (its routing table could not be allocated) is not put into service */
void harness_init_failure(void)
{
	init_peer_fails = nd_bool();
	struct buffered_reader br = { .this_ptr = &BSK, .close = s_close, .read_exactly = s_read_exactly, .writev = s_writev };
	int r = init_socket_peer(&SP, &br, true);
	if (init_peer_fails) { CHECK(r < 0 && reqs == 0, "C15.peer_that_could_not_be_initialised_is_not_put_into_service"); REACH("init_failed"); }
	else { CHECK(r == 0 && reqs == 1 && req_num == 4, "C09.connection_starts_reading_a_length_prefix"); REACH("init_ok"); }
	WITNESS_END();
}

/* C09.length_prefix: the 4-byte big-endian prefix decides what is read next */
void harness_length_prefix(void)
{
	mk();
	CHECK(reqs == 1 && req_num == 4 && req_cb == (void *)read_msg_length, "C09.connection_starts_reading_a_length_prefix");
	reqs = 0;
	uint8_t b[4]; for (int i = 0; i < 4; i++) b[i] = nd_u8();
	uint32_t len = ((uint32_t)b[0] << 24) | ((uint32_t)b[1] << 16) | ((uint32_t)b[2] << 8) | b[3];
	enum bs_read_callback_return r = read_msg_length(&SP, b, 4);
	CHECK(r == BS_OK && parse_calls == 0 && !peer_freed, "C09.length_prefix_alone_delivers_no_message");
	if (len == 0) { CHECK(reqs == 0, "C09.zero_length_is_skipped_and_next_prefix_read"); REACH("zero_length"); }
	else { CHECK(reqs == 1 && req_num == len && req_cb == (void *)read_msg, "C09.message_read_with_exactly_the_announced_length"); REACH("message_requested"); }
	WITNESS_END();
}
/* message callback: exactly the announced bytes go to the parser; errors and FIN free the peer once */
void harness_message(void)
{
	mk(); reqs = 0;
	static char buf[4];
	size_t len = nd_size(); __CPROVER_assume(len <= 4);
	parse_verdict = nd_bool() ? 0 : -1;
	enum bs_read_callback_return r = read_msg(&SP, (uint8_t *)buf, len);
	if (len == 0) { CHECK(r == BS_CLOSED && peer_freed == 1 && closes == 1 && parse_calls == 0, "C05.fin_frees_peer_once"); REACH("fin"); }
	else {
		CHECK(parse_calls == 1 && parse_msg == buf && parse_len == len, "C09.parser_gets_exactly_the_message_bytes");
		if (parse_verdict < 0) { CHECK(r == BS_CLOSED && peer_freed == 1 && closes == 1 && reqs == 0, "C06.malformed_message_costs_only_its_connection"); REACH("bad_message"); }
		else CHECK(r == BS_OK && !peer_freed && reqs == 1 && req_num == 4 && req_cb == (void *)read_msg_length, "C09.next_length_prefix_requested_after_message");
	}
	WITNESS_END();
}
/* C10.raw_header: one gathered write = 4-byte big-endian length + payload */
void harness_send_message(void)
{
	mk();
	size_t len = nd_size();
	static char payload[1];
	int r = send_message(&SP.peer, payload, len);
	if (len > 0xffffffffu) { CHECK(r == -1 && writes == 0, "C10.unrepresentable_length_refused_before_any_byte"); REACH("too_long"); }
	else {
		uint32_t got = ((uint32_t)hdr_copy[0] << 24) | ((uint32_t)hdr_copy[1] << 16) | ((uint32_t)hdr_copy[2] << 8) | hdr_copy[3];
		CHECK(r == 0 && writes == 1 && iov_count == 2 && hdr_len == 4 && got == len && pay_ptr == payload && pay_len == len, "C10.raw_frame_is_big_endian_length_then_payload_in_one_write");
	}
	WITNESS_END();
}
