/* C04 - the type / ownership / existence guards of add, change, set and call on the real element.c through the
 * dispatcher: one request per obligation (-DGUARD=n) against a state "s", a method "m" and a fetch-only state "f"
 * owned by O. A refused request is answered with exactly one error, routes nothing and changes nothing. */
#include "scn.h"
#include "hash_abs.h"

const cJSON *credentials_ok(const char *u, char *p) { (void)u; (void)p; return 0; }
cJSON *change_password(const struct peer *p, const cJSON *r, const char *u, char *pw) { (void)p; (void)r; (void)u; (void)pw; return 0; }
static struct peer O, A;
extern cJSON *model_parse_result;
static int dispatch(struct peer *p, cJSON *req) { model_parse_result = req; return parse_message("x", 1, p); }
static cJSON *args_params(const char *path, int v) { cJSON *p = cJSON_CreateObject(); cJSON_AddItemToObject(p, "path", cJSON_CreateString(path)); cJSON_AddItemToObject(p, "args", mknumber(v)); return p; }

void harness_guard(void)
{
	__CPROVER_assume(element_hashtable_create() == 0);
	long baseline = verif_live_blocks;
	mkpeer(&O, true); mkpeer(&A, true);
	int v = (int)nd_range(0, 999);
	scn_build_begin();
	cJSON *adds = mkreq("add", 1, path_params("s", 5));
	cJSON *addm = mkreq("add", 2, path_params("m", NO_VALUE));
	cJSON *fp = path_params("f", 6); cJSON_AddItemToObject(fp, "fetchOnly", cJSON_CreateTrue());
	cJSON *addf = mkreq("add", 3, fp);
	scn_build_end();
	__CPROVER_assume(dispatch(&O, adds) == 0 && dispatch(&O, addm) == 0 && dispatch(&O, addf) == 0);
	struct peer *actor = &A; int expect_routed = 0;
	scn_build_begin();
#if GUARD == 0
	cJSON *req = mkreq("set", 9, path_params("m", v));                 /* set on a method */
#elif GUARD == 1
	cJSON *req = mkreq("call", 9, args_params("s", v));                /* call on a state */
#elif GUARD == 2
	cJSON *req = mkreq("set", 9, path_params("f", v));                 /* set on a fetch-only state */
#elif GUARD == 3
	cJSON *req = mkreq("set", 9, path_params("zz", v));                /* unknown path */
#elif GUARD == 4
	cJSON *req = mkreq("call", 9, args_params("zz", v));               /* unknown path */
#elif GUARD == 5
	cJSON *req = mkreq("change", 9, path_params("m", v)); actor = &O;  /* change on a method, by its owner */
#elif GUARD == 6
	cJSON *req = mkreq("add", 9, path_params("s", v));                 /* add of a path another peer owns */
#elif GUARD == 7
	cJSON *req = mkreq("add", 9, path_params("s", v)); actor = &O;     /* add of a path the same peer owns */
#elif GUARD == 8
	cJSON *req = mkreq("set", 9, path_params("s", NO_VALUE));          /* set without value */
#elif GUARD == 9
	cJSON *req = mkreq("set", 9, path_params("s", v)); expect_routed = 1;     /* accepted: set on a state */
#elif GUARD == 10
	cJSON *req = mkreq("call", 9, args_params("m", v)); expect_routed = 1;    /* accepted: call on a method */
#elif GUARD == 11
	cJSON *req = mkreq("remove", 9, path_params("s", NO_VALUE));       /* remove of another peer's element */
#endif
	scn_build_end();
	reset_log();
	int r = dispatch(actor, req);
	CHECK(r == 0, "C04.request_keeps_connection");
	struct element *es = element_table_get("s"), *em = element_table_get("m"), *ef = element_table_get("f");
	CHECK(es && es->peer == &O && es->value && es->value->valueint == 5, "C04.state_unchanged_by_refused_or_routed_request");
	CHECK(em && em->peer == &O && em->value == 0, "C04.method_unchanged");
	CHECK(ef && ef->peer == &O && ef->value && ef->value->valueint == 6, "C04.fetch_only_state_unchanged");
	CHECK(element_table_get("zz") == 0, "C04.no_element_created");
	if (expect_routed) {
		struct sent *rt = last_of(&O, K_ROUTED);
		CHECK(count_kind(&O, K_ROUTED) == 1 && count_responses(actor) == 0 && rt && rt->value_int == v, "C04.well_typed_request_is_routed_to_the_owner");
		REACH("routed");
	} else {
		struct sent *resp = last_of(actor, K_RESPONSE);
		CHECK(count_responses(actor) == 1 && resp && resp->is_error && !resp->has_result && resp->id_int == 9, "C04.refused_request_answered_with_one_error");
		CHECK(count_kind(&O, K_ROUTED) == 0 && count_kind(&A, K_ROUTED) == 0 && timers_alive() == 0, "C04.refused_request_routes_nothing");
		REACH("refused");
	}
	/* whatever the request did: once both peers are gone nothing stays allocated */
	free_peer_resources(&A);
	free_peer_resources(&O);
	CHECK(timers_alive() == 0, "C07.no_timer_left_after_peers_are_gone");
	CHECK(verif_live_blocks == baseline, "C07.request_leaves_nothing_allocated_after_peers_are_gone");
	WITNESS_END();
}

/* ================================================================== an element added with a value is a state, whatever the JSON type of the value
 * (-DVTYPE: 0 null, 1 false, 2 empty string, 3 empty array, 4 empty object, 5 zero); added without value it is a method */
#ifndef VTYPE
#define VTYPE 0
#endif
void harness_value_types(void)
{
	__CPROVER_assume(element_hashtable_create() == 0);
	mkpeer(&O, true); mkpeer(&A, true);
	int v = (int)nd_range(0, 999);
	scn_build_begin();
	cJSON *ap = cJSON_CreateObject();
	cJSON_AddItemToObject(ap, "path", cJSON_CreateString("v"));
#if VTYPE == 0
	cJSON_AddItemToObject(ap, "value", cJSON_CreateNull());
#elif VTYPE == 1
	cJSON_AddItemToObject(ap, "value", cJSON_CreateFalse());
#elif VTYPE == 2
	cJSON_AddItemToObject(ap, "value", cJSON_CreateString(""));
#elif VTYPE == 3
	cJSON_AddItemToObject(ap, "value", cJSON_CreateArray());
#elif VTYPE == 4
	cJSON_AddItemToObject(ap, "value", cJSON_CreateObject());
#else
	cJSON_AddItemToObject(ap, "value", mknumber(0));
#endif
	cJSON *add = mkreq("add", 1, ap);
	cJSON *get = mkreq("get", 2, cJSON_CreateObject());
	cJSON *call = mkreq("call", 3, args_params("v", v));
	cJSON *chg = mkreq("change", 4, path_params("v", v));
	scn_build_end();
	reset_log();
	CHECK(dispatch(&O, add) == 0 && count_responses(&O) == 1 && last_of(&O, K_RESPONSE)->has_result, "C04.well_formed_add_of_a_free_path_succeeds");
	struct element *e = element_table_get("v");
	CHECK(e && e->peer == &O && e->value != 0, "C04.element_added_with_a_value_is_a_state");
	reset_log();
	CHECK(dispatch(&A, get) == 0, "C04.request_keeps_connection");
	{ struct sent *g = last_of(&A, K_RESPONSE); CHECK(g && g->has_result && g->result_items == 1, "C04.get_lists_the_state"); }
	reset_log();
	CHECK(dispatch(&A, call) == 0, "C04.request_keeps_connection");
	{ struct sent *c = last_of(&A, K_RESPONSE); CHECK(count_responses(&A) == 1 && c && c->is_error && count_kind(&O, K_ROUTED) == 0 && timers_alive() == 0, "C04.call_is_refused_for_states"); }
	reset_log();
	CHECK(dispatch(&O, chg) == 0, "C04.request_keeps_connection");
	{ struct sent *c = last_of(&O, K_RESPONSE); CHECK(c && c->has_result && !c->is_error, "C04.change_by_the_owner_is_accepted_for_states"); }
	e = element_table_get("v");
	CHECK(e && e->value && e->value->valueint == v, "C04.accepted_change_stores_the_value");
	WITNESS_END();
}

/* ================================================================== values of every JSON type travel unchanged: the owner changes its state to a value of
 * type VTYPE (subscriber B sees a change event carrying that type, the state stays a state), and A sets the state
 * to a value of that type (the routed request carries that type) */
static struct peer Bs;
void harness_value_types_travel(void)
{
	__CPROVER_assume(element_hashtable_create() == 0);
	mkpeer(&O, true); mkpeer(&A, true); mkpeer(&Bs, true);
	scn_build_begin();
#if VTYPE == 0
	cJSON *nv = cJSON_CreateNull(), *sv = cJSON_CreateNull(); int want = cJSON_NULL;
#elif VTYPE == 1
	cJSON *nv = cJSON_CreateFalse(), *sv = cJSON_CreateFalse(); int want = cJSON_False;
#elif VTYPE == 2
	cJSON *nv = cJSON_CreateString(""), *sv = cJSON_CreateString(""); int want = cJSON_String;
#elif VTYPE == 3
	cJSON *nv = cJSON_CreateArray(), *sv = cJSON_CreateArray(); int want = cJSON_Array;
#elif VTYPE == 4
	cJSON *nv = cJSON_CreateObject(), *sv = cJSON_CreateObject(); int want = cJSON_Object;
#else
	cJSON *nv = mknumber(0), *sv = mknumber(0); int want = cJSON_Number;
#endif
	cJSON *add = mkreq("add", 1, path_params("s", 5));
	cJSON *fetch = mkreq("fetch", 2, fetch_params("f"));
	cJSON *cp = cJSON_CreateObject(); cJSON_AddItemToObject(cp, "path", cJSON_CreateString("s")); cJSON_AddItemToObject(cp, "value", nv);
	cJSON *chg = mkreq("change", 3, cp);
	cJSON *sp = cJSON_CreateObject(); cJSON_AddItemToObject(sp, "path", cJSON_CreateString("s")); cJSON_AddItemToObject(sp, "value", sv);
	cJSON *set = mkreq("set", 4, sp);
	scn_build_end();
	__CPROVER_assume(dispatch(&O, add) == 0 && dispatch(&Bs, fetch) == 0);
	reset_log();
	CHECK(dispatch(&O, chg) == 0, "C04.request_keeps_connection");
	{ struct sent *c = last_of(&O, K_RESPONSE); CHECK(c && c->has_result && !c->is_error, "C04.change_by_the_owner_is_accepted_for_states"); }
	struct element *e = element_table_get("s");
	CHECK(e && e->value != 0 && e->value->type == want, "C04.accepted_change_stores_the_value");
	{ struct sent *ev = last_of(&Bs, K_EVENT); CHECK(count_events(&Bs, 'c', "s") == 1 && ev && ev->has_value && ev->payload_type == want, "C01.change_event_carries_new_value"); }
	reset_log();
	CHECK(dispatch(&A, set) == 0, "C04.request_keeps_connection");
	{ struct sent *rt = last_of(&O, K_ROUTED); CHECK(count_kind(&O, K_ROUTED) == 1 && count_responses(&A) == 0 && rt && rt->has_value && rt->payload_type == want, "C03.routed_request_carries_path_and_value_unchanged"); }
	WITNESS_END();
}
