/* C05 - end of a WebSocket connection: the real websocket_peer.c / websocket.c teardown order (connection closed and
 * freed first, peer bookkeeping afterwards) with the real peer.c / router.c / fetch.c / element.c bookkeeping.
 * The connection object lives on the heap and is really freed: any later use is a use-after-free (CBMC's
 * deallocated-object check; ASan in the native replay), and the reader/writer stubs flag any use after close. */
#include "scn.h"
#include "hash_abs.h"
#include "http-parser/http_parser.h"
#include "http_connection.h"
#include "websocket.h"
#include "websocket_peer.h"

const cJSON *credentials_ok(const char *u, char *p) { (void)u; (void)p; return 0; }
cJSON *change_password(const struct peer *p, const cJSON *r, const char *u, char *pw) { (void)p; (void)r; (void)u; (void)pw; return 0; }
void cjet_get_random_bytes(void *b, size_t n) { (void)b; (void)n; }
size_t http_parser_execute(http_parser *p, const http_parser_settings *s, const char *d, size_t l) { (void)p; (void)s; (void)d; return l; }
int send_http_error_response(struct http_connection *c) { (void)c; return 0; }

static int conn_closed, frames_written, close_frames;
static int br_close(void *t) { (void)t; CHECK(!conn_closed, "C07.connection_closed_once"); conn_closed = 1; return 0; }
static int br_writev(void *t, struct socket_io_vector *iov, unsigned int n)
{
	(void)t; (void)n;
	CHECK(!conn_closed, "C05.no_write_through_released_connection");
	frames_written++;
	if ((((const uint8_t *)iov[0].iov_base)[0] & 0x0f) == 8) close_frames++;
	return 0;
}
static int br_read_until(void *t, const char *d, enum bs_read_callback_return (*cb)(void *, uint8_t *, size_t), void *c) { (void)t; (void)d; (void)cb; (void)c; CHECK(!conn_closed, "C05.no_read_through_released_connection"); return 0; }
static enum bs_read_callback_return (*next_cb)(void *, uint8_t *, size_t); static void *next_ctx; static size_t next_n;
static int br_read_exactly(void *t, size_t n, enum bs_read_callback_return (*cb)(void *, uint8_t *, size_t), void *c) { (void)t; CHECK(!conn_closed, "C05.no_read_through_released_connection"); next_cb = cb; next_ctx = c; next_n = n; return 0; }
static void (*err_handler)(void *); static void *err_ctx;
static void br_set_error(void *t, void (*e)(void *), void *c) { (void)t; err_handler = e; err_ctx = c; }
void free_connection(void *context)
{
	struct http_connection *c = context;
	struct buffered_reader *br = &c->br;
	br->close(br->this_ptr);
	cjet_free(c);
}

static struct http_server SERVER;
static struct peer O, B;
extern cJSON *model_parse_result;
static int dispatch(struct peer *p, cJSON *req) { model_parse_result = req; return parse_message("x", 1, p); }

/* how the connection ends */
#ifndef ENDCASE
#define ENDCASE 0
#endif
void harness_ws_end(void)
{
	__CPROVER_assume(element_hashtable_create() == 0);
	long baseline = verif_live_blocks;
	mkpeer(&O, true); mkpeer(&B, true);
	struct http_connection *c = cjet_malloc(sizeof(*c));
	__CPROVER_assume(c != 0);
	c->br.this_ptr = c; c->br.close = br_close; c->br.writev = br_writev; c->br.read_until = br_read_until; c->br.read_exactly = br_read_exactly; c->br.set_error_handler = br_set_error;
	SERVER.ev.loop = 0; c->server = &SERVER; c->is_local_connection = true; c->compression_level = 0; c->status_code = 0; c->parser.data = 0; c->parser.upgrade = 1;
	int r = alloc_websocket_peer(c);
	__CPROVER_assume(r == 0);
	struct websocket *ws = c->parser.data;
	struct websocket_peer *wp = container_of(ws, struct websocket_peer, websocket);
	struct peer *P = &wp->peer;
	ws->upgrade_complete = true;
	int v = (int)nd_range(0, 999);
	/* P: owns state "p" (B subscribed to everything), holds a fetch, is caller of a request routed to O and owner of one routed from B */
	scn_build_begin();
	cJSON *addo = mkreq("add", 1, path_params("o", 1));
	cJSON *fetchb = mkreq("fetch", 2, fetch_params("fb"));
	cJSON *addp = mkreq("add", 3, path_params("p", v));
	cJSON *fetchp = mkreq("fetch", 4, fetch_params("fp"));
	cJSON *setpo = mkreq("set", 5, path_params("o", 7));
	cJSON *setbp = mkreq("set", 6, path_params("p", 8));
	scn_build_end();
	__CPROVER_assume(dispatch(&O, addo) == 0);
	__CPROVER_assume(dispatch(&B, fetchb) == 0);
	__CPROVER_assume(dispatch(P, addp) == 0);
	__CPROVER_assume(dispatch(P, fetchp) == 0);
#if ENDCASE != 3
	__CPROVER_assume(dispatch(P, setpo) == 0);       /* P is caller: in flight to O */
	__CPROVER_assume(dispatch(&B, setbp) == 0);      /* P is owner: in flight from B */
#else
	cJSON_Delete(setpo); cJSON_Delete(setbp);            /* not used in this case */
#endif
	__CPROVER_assume(!conn_closed);
	reset_log();
	int peers_before = get_number_of_peers();
#if ENDCASE == 0
	enum bs_read_callback_return rc = ws_get_header(ws, 0, 0);              /* FIN while waiting for a frame header */
	CHECK(rc == BS_CLOSED, "C05.end_reported_to_read_loop");
#elif ENDCASE == 1
	err_handler(err_ctx);                                                    /* socket error reported by the buffered socket */
#elif ENDCASE == 2
	P->close(P);                                                             /* daemon shuts the peer down (destroy_all_peers) */
#else
	/* a client close frame (FIN, opcode 8, masked, empty payload) fed through the real header state machine */
	uint8_t b0 = 0x88, b1 = 0x80, mask[4] = {1, 2, 3, 4};
	enum bs_read_callback_return rc = ws_get_header(ws, &b0, 1);
	__CPROVER_assume(rc == BS_OK && next_cb != 0 && next_n == 1);
	rc = next_cb(next_ctx, &b1, 1);                                           /* length byte: reads the mask next */
	__CPROVER_assume(rc == BS_OK && next_n == 4);
	rc = next_cb(next_ctx, mask, 4);                                          /* mask, empty payload: frame handled */
	CHECK(rc == BS_CLOSED, "C05.end_reported_to_read_loop");
#endif
	CHECK(conn_closed, "C05.connection_released");
	CHECK(close_frames == 1, "C12.close_frame_sent_once_before_release");
	CHECK(get_number_of_peers() == peers_before - 1, "C05.peer_gone");
	CHECK(element_table_get("p") == 0 && count_events(&B, 'r', "p") == 1, "C05.owned_elements_disappear_and_subscribers_see_remove");
	CHECK(element_table_get("o") != 0, "C05.other_peers_elements_unaffected");
#if ENDCASE != 3
	int b_answers = 0; for (int i = 0; i < nlog; i++) if (LOG[i].kind == K_RESPONSE && LOG[i].to == &B && LOG[i].id_int == 6 && LOG[i].is_error) b_answers++;
	CHECK(b_answers == 1, "C05.requests_routed_to_the_leaving_peer_answered_with_error");
#endif
	CHECK(timers_alive() == 0, "C07.request_timers_destroyed_at_connection_end");
	free_peer_resources(&B); free_peer_resources(&O);
	CHECK(verif_live_blocks == baseline, "C07.everything_released_after_all_connections_ended");
	WITNESS_END();
}
