/* C12 / C13 - WebSocket upgrade decision of the real src/websocket.c (header callbacks, headers-complete,
 * upgrade response), base64 (src/base64.c) and extension negotiation (C19). */
#include "verif.h"
#include <string.h>
#include <stdlib.h>
#include <ctype.h>
/* isspace() of the "C" locale (glibc implements it with a locale table CBMC has no model of) */
static int verif_isspace(int c) { return c == ' ' || (c >= 9 && c <= 13); }
#undef isspace
#define isspace(c) verif_isspace(c)
#ifndef NEG_LEVEL
#define NEG_LEVEL 2
#define NEG_OFFER "permessage-deflate"
#endif
#include "websocket.c"

void log_err(const char *f, ...) { (void)f; }
void log_info(const char *f, ...) { (void)f; }
void log_warn(const char *f, ...) { (void)f; }
void cjet_get_random_bytes(void *b, size_t n) { (void)b; (void)n; }
size_t http_parser_execute(http_parser *p, const http_parser_settings *s, const char *d, size_t l) { (void)p; (void)s; (void)d; return l; }
int SHA1Reset(SHA1Context *c) { (void)c; return 0; }
int SHA1Input(SHA1Context *c, const uint8_t *d, unsigned int l) { (void)c; (void)d; (void)l; return 0; }
int SHA1Result(SHA1Context *c, uint8_t d[SHA1HashSize]) { (void)c; for (int i = 0; i < SHA1HashSize; i++) d[i] = (uint8_t)i; return 0; }
static int lower(int c) { return (c >= 'A' && c <= 'Z') ? c + 32 : c; }
int jet_strncasecmp(const char *a, const char *b, size_t n) { for (size_t i = 0; i < n; i++) { int x = lower((unsigned char)a[i]), y = lower((unsigned char)b[i]); if (x != y) return x < y ? -1 : 1; if (!x) return 0; } return 0; }
void free_connection(void *c) { (void)c; }
int send_http_error_response(struct http_connection *c) { (void)c; return 0; }
int inflateInit2_(z_streamp s, int w, const char *v, int sz) { (void)s; (void)w; (void)v; (void)sz; return 0; }
int deflateInit2_(z_streamp s, int l, int m, int w, int ml, int st, const char *v, int sz) { (void)s; (void)l; (void)m; (void)w; (void)ml; (void)st; (void)v; (void)sz; return 0; }
int inflateEnd(z_streamp s) { (void)s; return 0; }
int deflateEnd(z_streamp s) { (void)s; return 0; }

static struct http_connection CONN; static struct websocket WS;
static int writes; static char first_line[16]; static unsigned chunks; static size_t accept_len;
static int u_writev(void *t, struct socket_io_vector *iov, unsigned int n)
{ (void)t; writes++; chunks = n; const char *s = iov[0].iov_base; for (int i = 0; i < 12; i++) first_line[i] = s[i]; accept_len = iov[1].iov_len; return 0; }
static void on_err(struct websocket *s) { (void)s; }
static void hdr(const char *name, const char *value, int *bad)
{
	websocket_upgrade_on_header_field(&CONN.parser, name, strlen(name));
	if (websocket_upgrade_on_header_value(&CONN.parser, value, strlen(value)) != 0) *bad = 1;
}

/* which headers a client sends and how: all combinations (flags symbolic, header texts from a closed vocabulary) */
void harness_upgrade_rules(void)
{
	CONN.br.writev = u_writev; CONN.parser.data = &WS; CONN.compression_level = 0;
	__CPROVER_assume(websocket_init(&WS, &CONN, true, on_err, "jet") == 0);
	int with_key = nd_bool(), key_ok = nd_bool(), with_version = nd_bool(), version_ok = nd_bool();
	int proto_lookalike = nd_bool();
	int with_proto = nd_bool(), proto_jet = nd_bool(), method_get = nd_bool(), http11 = nd_bool(), upgrade_flag = nd_bool(), other_header = nd_bool();
	int bad = 0;
	if (other_header) hdr("Host", "example", &bad);
	if (with_key) hdr("sec-websocket-KEY", key_ok ? "dGhlIHNhbXBsZSBub25jZQ==" : "tooshort", &bad);
	int wrong_version = (int)nd_range(0, 3);      /* which wrong version text: another number, look-alikes of "13" */
	if (with_version) hdr("Sec-WebSocket-Version", version_ok ? "13" : (wrong_version == 0 ? "8" : wrong_version == 1 ? "130" : wrong_version == 2 ? "13, 8" : "1"), &bad);
	/* offers that merely look like "jet" (prefix, suffix, different case) are other protocols */
	if (with_proto) hdr("Sec-WebSocket-Protocol", proto_jet ? "chat, jet" : (proto_lookalike ? "jetx, je, Jet" : "chat,superchat"), &bad);
	int accepted = 0;
	if (!bad) {          /* a callback error stops the HTTP parser: headers-complete is then never reached */
		CONN.parser.method = method_get ? HTTP_GET : HTTP_POST;
		CONN.parser.http_major = 1; CONN.parser.http_minor = http11 ? 1 : 0;
		CONN.parser.upgrade = upgrade_flag;
		int r = websocket_upgrade_on_headers_complete(&CONN.parser);
		accepted = r == 1;
		CHECK(r == 1 || r == -1, "C12.headers_complete_accepts_or_refuses");
	}
	CHECK(accepted == (writes == 1), "C12.upgrade_response_written_iff_accepted");
	if (accepted) {
		CHECK(first_line[9] == '1' && first_line[10] == '0' && first_line[11] == '1' && accept_len == 28, "C12.accepted_upgrade_answered_with_101_and_28_byte_accept_value");
		CHECK(method_get && http11 && upgrade_flag, "C12.upgrade_needs_GET_HTTP_1_1_and_upgrade_request");
		CHECK(!with_version || version_ok, "C12.wrong_websocket_version_not_upgraded");
		CHECK(!with_key || key_ok, "C12.malformed_key_not_upgraded");
		CHECK(!with_proto || proto_jet, "C12.unsupported_subprotocol_not_upgraded");
		CHECK(with_key, "C13.upgrade_without_key_not_accepted");
		CHECK(with_version, "C13.upgrade_without_version_not_accepted");
		REACH("accepted");
	}
	if (with_key && key_ok && with_version && version_ok && (!with_proto || proto_jet) && method_get && http11 && upgrade_flag)
		{ CHECK(accepted, "C12.valid_upgrade_is_accepted"); REACH("valid"); }
	WITNESS_END();
}

/* base64 of the 20-byte digest: 28 characters that decode to the input */
static int dec(uint8_t c) { if (c >= 'A' && c <= 'Z') return c - 'A'; if (c >= 'a' && c <= 'z') return c - 'a' + 26; if (c >= '0' && c <= '9') return c - '0' + 52; if (c == '+') return 62; if (c == '/') return 63; return -1; }
void harness_b64(void)
{
	uint8_t in[20], out[28];
	for (int i = 0; i < 20; i++) in[i] = nd_u8();
	b64_encode_buffer(in, 20, out);
	unsigned k = (unsigned)nd_range(0, 5);                /* observed 3-byte group (the 7th group is the padded one) */
	int a = dec(out[4 * k]), b = dec(out[4 * k + 1]), c = dec(out[4 * k + 2]), d = dec(out[4 * k + 3]);
	CHECK(a >= 0 && b >= 0 && c >= 0 && d >= 0, "C12.base64_alphabet");
	CHECK((uint8_t)((a << 2) | (b >> 4)) == in[3 * k] && (uint8_t)((b << 4) | (c >> 2)) == in[3 * k + 1] && (uint8_t)((c << 6) | d) == in[3 * k + 2], "C12.base64_decodes_to_input");
	int e = dec(out[24]), f = dec(out[25]), g = dec(out[26]);
	CHECK(e >= 0 && f >= 0 && g >= 0 && out[27] == '=' && (uint8_t)((e << 2) | (f >> 4)) == in[18] && (uint8_t)((f << 4) | (g >> 2)) == in[19] && (g & 3) == 0, "C12.base64_final_group_padded");
	WITNESS_END();
}

/* C19.negotiation: the answer only contains what the client offered or what RFC 7692 lets the server add */
static int has(const char *hay, const char *needle) { size_t n = strlen(needle); for (size_t i = 0; hay[i]; i++) if (strncmp(hay + i, needle, n) == 0) return 1; return 0; }
#ifndef NEG_CLIENT_BITS
#define NEG_CLIENT_BITS 0     /* the value the concrete offer gives for client_max_window_bits (0: none) */
#endif
#ifndef NEG_SERVER_BITS
#define NEG_SERVER_BITS 0
#endif
void harness_negotiation(void)
{
	CONN.parser.data = &WS; CONN.compression_level = NEG_LEVEL;
	__CPROVER_assume(websocket_init(&WS, &CONN, true, on_err, "jet") == 0);
	static const char offer[] = NEG_OFFER;
	check_websocket_extensions(&WS, offer, sizeof(offer) - 1);
	if (WS.extension_compression.accepted) {
		const char *resp = WS.extension_compression.response;
		size_t l = strlen(resp);
		CHECK(l <= 128, "C19.response_fits_its_buffer");
		CHECK(has(resp, "permessage-deflate"), "C19.response_names_the_extension");
		if (has(resp, "client_max_window_bits")) CHECK(has(offer, "client_max_window_bits"), "C19.client_max_window_bits_only_if_offered");
		CHECK(WS.extension_compression.client_max_window_bits >= 8 && WS.extension_compression.client_max_window_bits <= 15 &&
		      WS.extension_compression.server_max_window_bits >= 8 && WS.extension_compression.server_max_window_bits <= 15, "C19.window_bits_within_8_to_15");
#if NEG_CLIENT_BITS
		/* RFC 7692 7.1.2.2: the answered client_max_window_bits is never larger than the offered one */
		CHECK(WS.extension_compression.client_max_window_bits <= NEG_CLIENT_BITS, "C19.client_window_never_larger_than_offered");
		{ char want[40]; int n = NEG_CLIENT_BITS; int got = WS.extension_compression.client_max_window_bits; (void)n;
		  const char *k = "client_max_window_bits="; size_t i = 0; for (; k[i]; i++) want[i] = k[i];
		  if (got >= 10) want[i++] = '1'; want[i++] = (char)('0' + got % 10); want[i] = 0;
		  CHECK(has(resp, want), "C19.response_states_the_negotiated_client_window"); }
#endif
#if NEG_SERVER_BITS
		CHECK(WS.extension_compression.server_max_window_bits <= NEG_SERVER_BITS, "C19.server_window_never_larger_than_requested");
#endif
		REACH("accepted");
	} else {
		CHECK(WS.extension_compression.response == 0 || 1, "C19.refused_offer_is_harmless");
	}
	free(WS.extension_compression.response);
	WITNESS_END();
}

/* C19 / C06: the offer parser on arbitrary bytes after the extension name: memory safety and the response bound */
#ifndef OFFER_TAIL
#define OFFER_TAIL 8
#endif
void harness_offer_bytes(void)
{
	CONN.parser.data = &WS; CONN.compression_level = 2;
	__CPROVER_assume(websocket_init(&WS, &CONN, true, on_err, "jet") == 0);
	static const char name[] = "permessage-deflate;";
	size_t tail = nd_size(); __CPROVER_assume(tail <= OFFER_TAIL);
	size_t total = sizeof(name) - 1 + tail;
	char *offer = malloc(total);                        /* header value: not NUL-terminated, exact size */
	__CPROVER_assume(offer != 0);
	for (size_t i = 0; i < sizeof(name) - 1; i++) offer[i] = name[i];
	for (size_t i = 0; i < OFFER_TAIL; i++) if (i < tail) offer[sizeof(name) - 1 + i] = (char)nd_u8();
	check_websocket_extensions(&WS, offer, total);
	if (WS.extension_compression.accepted) {
		size_t l = 0; while (l < 129 && WS.extension_compression.response[l]) l++;
		CHECK(l <= 128, "C19.response_fits_its_buffer");
		CHECK(WS.extension_compression.client_max_window_bits >= 8 && WS.extension_compression.client_max_window_bits <= 15 &&
		      WS.extension_compression.server_max_window_bits >= 8 && WS.extension_compression.server_max_window_bits <= 15, "C19.window_bits_within_8_to_15");
		REACH("accepted");
	}
	free(WS.extension_compression.response);
	free(offer);
	WITNESS_END();
}
