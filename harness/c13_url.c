/* C13.url_match: the real find_url_handler (src/http_server.c): a handler is selected iff its request target is a
 * prefix of the requested path - never for a path that is shorter than the target. */
#include "verif.h"
#include <string.h>
#include "http_server.c"
#ifndef UMAX
#define UMAX 10
#endif
void harness_url_match(void)
{
	static const char target[] = "/api/jet/";          /* 9 bytes */
	struct url_handler h = { .request_target = target };
	struct http_server srv = { .handler = &h, .num_handlers = 1 };
	size_t n = nd_size(); __CPROVER_assume(n <= UMAX);
	char *url = malloc(n ? n : 1);                    /* not NUL-terminated, exact size */
	__CPROVER_assume(url != 0);
	for (size_t i = 0; i < UMAX; i++) if (i < n) url[i] = (char)nd_u8();
	const struct url_handler *r = find_url_handler(&srv, url, n);
	int is_prefix = n >= 9;
	for (size_t i = 0; i < 9; i++) if (i < n && url[i] != target[i]) is_prefix = 0;
	CHECK((r != 0) == is_prefix, "C13.handler_selected_iff_target_is_prefix_of_path");
	if (r) { CHECK(r == &h, "C13.selected_handler_is_the_registered_one"); REACH("match"); }
	if (n < 9) REACH("short_path");
	free(url);
	WITNESS_END();
}
