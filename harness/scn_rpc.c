/* C02 - JSON-RPC discipline over the real dispatcher (parse.c) and response construction (response.c),
 * with the real handlers behind it. */
#include "scn.h"

const cJSON *credentials_ok(const char *u, char *p) { (void)u; (void)p; return 0; }
cJSON *change_password(const struct peer *p, const cJSON *r, const char *u, char *pw) { (void)u; (void)pw; return create_error_response_from_request(p, r, INVALID_PARAMS, "reason", "x"); }

static struct peer A, B;
extern cJSON *model_parse_result;
static int dispatch(struct peer *p, cJSON *req) { model_parse_result = req; return parse_message("x", 1, p); }

/* a numeric id as the JSON library's number parser produces it: valuedouble = the number, valueint = (int) saturated */
static cJSON *number_id(double d)
{
	cJSON *n = cJSON_CreateNumber(0);
	n->valuedouble = d;
	n->valueint = d >= 2147483647.0 ? 2147483647 : d <= -2147483648.0 ? (-2147483647 - 1) : (int)d;
	return n;
}

/* ================================================================== id echo: every numeric / string id */
void harness_id_echo(void)
{
	__CPROVER_assume(element_hashtable_create() == 0);
	mkpeer(&A, true);
	double d = nd_double();
	__CPROVER_assume(d == d && d > -1e300 && d < 1e300);
#ifdef STRING_ID
	int use_string = 1;              /* the id's JSON type is fixed per obligation */
#else
	int use_string = 0;
#endif
	char c0 = (char)nd_range(1, 127);
	long blocks_base = verif_live_blocks;
	scn_build_begin();
	char idbuf[3] = {c0, 'x', 0};
	cJSON *id = use_string ? cJSON_CreateString("?x") : number_id(d);
	if (use_string) id->valuestring[0] = c0;
	(void)idbuf;
#if RPC_METHOD == 0
	cJSON *req = mkreq_id("info", id, 0);
#elif RPC_METHOD == 1
	cJSON *req = mkreq_id("nosuchmethod", id, cJSON_CreateObject());
#else
	cJSON *req = mkreq_id("change", id, path_params("nope", 1));     /* error response path */
#endif
	scn_build_end();
	int r = dispatch(&A, req);
	CHECK(r == 0, "C02.request_keeps_connection");
	CHECK(nlog == 1 && LOG[0].kind == K_RESPONSE && LOG[0].to == &A, "C02.exactly_one_response_on_the_requesting_connection");
	CHECK(LOG[0].has_result != LOG[0].is_error, "C02.response_has_exactly_one_of_result_or_error");
#if RPC_METHOD == 0
	CHECK(LOG[0].has_result, "C02.info_succeeds");
#else
	CHECK(LOG[0].is_error, "C02.unknown_method_or_bad_params_is_an_error");
#endif
	if (use_string) { CHECK(LOG[0].id_type == cJSON_String && LOG[0].id_str[0] == c0 && LOG[0].id_str[1] == 'x' && LOG[0].id_str[2] == 0, "C02.string_id_echoed_unchanged"); REACH("string_id"); }
	else {
		CHECK(LOG[0].id_type == cJSON_Number, "C02.numeric_id_echoed_as_number");
		CHECK(LOG[0].id_double == d, "C02.numeric_id_echoed_with_equal_value");
		REACH("numeric_id");
	}
	/* the request tree and everything the handler and the response allocated are released again */
	CHECK(verif_live_blocks == blocks_base, "C07.request_and_response_objects_released");
	WITNESS_END();
}

/* ================================================================== no answer for notifications and for responses */
void harness_no_answer(void)
{
	__CPROVER_assume(element_hashtable_create() == 0);
	mkpeer(&A, true); mkpeer(&B, true);
	int v = (int)nd_range(0, 999);
	scn_build_begin();
	cJSON *adds = mkreq("add", 1, path_params("a", 5));
	scn_build_end();
	__CPROVER_assume(dispatch(&A, adds) == 0);
	reset_log();
	scn_build_begin();
#if SHAPE == 0      /* request without id: takes effect, no response */
	cJSON *req = mkreq_id("change", 0, path_params("a", v));
#elif SHAPE == 1    /* failing request without id: no response either */
	cJSON *req = mkreq_id("change", 0, path_params("zz", v));
#elif SHAPE == 2    /* an incoming response object (result) with an id nobody waits for */
	cJSON *req = cJSON_CreateObject(); cJSON_AddItemToObject(req, "id", cJSON_CreateString("q")); cJSON_AddItemToObject(req, "result", mknumber(v));
#elif SHAPE == 3    /* an incoming error response object */
	cJSON *req = cJSON_CreateObject(); cJSON_AddItemToObject(req, "id", cJSON_CreateString("q")); cJSON_AddItemToObject(req, "error", mknumber(v));
#else               /* neither request nor response, with id: error response */
	cJSON *req = cJSON_CreateObject(); cJSON_AddItemToObject(req, "id", cJSON_CreateNumber(9)); cJSON_AddItemToObject(req, "foo", mknumber(v));
#endif
	scn_build_end();
	int r = dispatch(&A, req);
#if SHAPE == 0
	CHECK(r >= 0, "C02.message_keeps_connection");        /* a well-formed notification is an ordinary request */
#else
	CHECK(r == 0 || r == -1, "C06.odd_message_costs_at_most_the_senders_connection");
#endif
#if SHAPE <= 3
	CHECK(nlog == 0, "C02.notifications_and_responses_are_never_answered");
#else
	/* an object that is neither request nor response: not a request object, so no answer is owed; if one is sent it is
	   a single error for the sender carrying the id */
	CHECK(nlog <= 1 && (nlog == 0 || (LOG[0].kind == K_RESPONSE && LOG[0].is_error && !LOG[0].has_result && LOG[0].id_int == 9 && LOG[0].to == &A)), "C02.malformed_object_is_answered_with_at_most_one_error");
#endif
#if SHAPE == 0
	struct element *e = element_table_get("a");
	CHECK(e && e->value->valueint == v, "C02.notification_takes_effect");
#endif
	WITNESS_END();
}

/* ================================================================== batch: processed in order, one response each */
void harness_batch(void)
{
	__CPROVER_assume(element_hashtable_create() == 0);
	mkpeer(&A, true);
	int v = (int)nd_range(0, 999);
	scn_build_begin();
	cJSON *batch = cJSON_CreateArray();
	cJSON_AddItemToArray(batch, mkreq("add", 1, path_params("a", 5)));
	cJSON_AddItemToArray(batch, mkreq("change", 2, path_params("a", v)));
	cJSON_AddItemToArray(batch, mkreq("remove", 3, path_params("a", NO_VALUE)));
	cJSON_AddItemToArray(batch, mkreq("change", 4, path_params("a", 1)));      /* fails: already removed */
	scn_build_end();
	int r = dispatch(&A, batch);
	CHECK(r == 0, "C02.batch_keeps_connection");
	CHECK(nlog == 4, "C02.batch_one_response_per_member");
	CHECK(LOG[0].id_int == 1 && LOG[1].id_int == 2 && LOG[2].id_int == 3 && LOG[3].id_int == 4, "C02.batch_answered_in_order");
	CHECK(LOG[0].has_result && LOG[1].has_result && LOG[2].has_result && LOG[3].is_error, "C02.batch_members_processed_sequentially");
	CHECK(element_table_get("a") == 0, "C02.batch_effects_applied_in_order");
	WITNESS_END();
}

/* ================================================================== request ownership of overwritten error responses (leak) */
void harness_response_ownership(void)
{
	__CPROVER_assume(element_hashtable_create() == 0);
	mkpeer(&A, true);
	long blocks_base = verif_live_blocks, nodes_base = model_live_nodes;
	scn_build_begin();
#if WHICH == 0
	/* add with an access object whose fetchGroups is not an array: init_element builds two error responses */
	cJSON *params = path_params("a", 1);
	cJSON *access = cJSON_CreateObject();
	cJSON_AddItemToObject(access, "fetchGroups", cJSON_CreateNumber(1));
	cJSON_AddItemToObject(params, "access", access);
	cJSON *req = mkreq("add", 1, params);
#else
	/* fetch with an unknown matcher name: create_fetch/add_matchers error path */
	cJSON *fp = fetch_params("f");
	cJSON *path = cJSON_CreateObject();
	cJSON_AddItemToObject(path, "bogus", cJSON_CreateString("x"));
	cJSON_AddItemToObject(fp, "path", path);
	cJSON *req = mkreq("fetch", 1, fp);
#endif
	scn_build_end();
	int r = dispatch(&A, req);
	CHECK(r == 0 && nlog == 1 && LOG[0].is_error, "C02.refused_request_gets_one_error");
	/* before the request: the request tree was alive; afterwards request and every response object must be gone */
	CHECK(model_live_nodes == nodes_base, "C07.no_response_object_leaked");
	CHECK(verif_live_blocks == blocks_base, "C07.no_block_leaked_by_refused_request");
	WITNESS_END();
}

/* ================================================================== a batch with a member that is not an object: the connection is dropped,
 * members before it were processed and answered, members after it are not */
void harness_batch_garbage(void)
{
	__CPROVER_assume(element_hashtable_create() == 0);
	mkpeer(&A, true);
	int v = (int)nd_range(0, 999);
	scn_build_begin();
	cJSON *batch = cJSON_CreateArray();
	cJSON_AddItemToArray(batch, mkreq("add", 1, path_params("a", v)));
	cJSON_AddItemToArray(batch, mknumber(7));                                  /* garbage member */
	cJSON_AddItemToArray(batch, mkreq("remove", 3, path_params("a", NO_VALUE)));
	scn_build_end();
	long before = verif_live_blocks;
	int r = dispatch(&A, batch);
	/* the garbage member costs at most the sender's connection (today: the connection is dropped, r == -1; not demanded) */
	CHECK(r == 0 || r == -1, "C06.malformed_batch_costs_at_most_the_senders_connection");
	CHECK(nlog >= 1 && LOG[0].id_int == 1 && LOG[0].has_result && LOG[0].to == &A, "C02.members_before_the_garbage_were_processed_and_answered_in_order");
	/* members after it: either not processed at all, or processed and answered - never processed silently or answered without effect */
	struct element *e = element_table_get("a");
	int third_answered = 0; for (int i = 1; i < nlog; i++) if (LOG[i].kind == K_RESPONSE && LOG[i].id_int == 3) third_answered++;
	CHECK(third_answered <= 1 && (third_answered == 1) == (e == 0), "C02.member_after_the_garbage_is_answered_iff_processed");
	if (e) CHECK(e->value->valueint == v, "C02.unprocessed_member_left_the_element_alone");
	if (r == -1) REACH("closed");
	(void)before;
	WITNESS_END();
}

/* ================================================================== batches of other shapes (-DBATCHCASE): 1: a notification, a request and a failing request;
 * 2: a batch of one; 3: a failing request first - the later members are still processed */
#ifndef BATCHCASE
#define BATCHCASE 1
#endif
void harness_batch_shapes(void)
{
	__CPROVER_assume(element_hashtable_create() == 0);
	mkpeer(&A, true);
	int v = (int)nd_range(0, 999), w = (int)nd_range(0, 999);
	scn_build_begin();
	cJSON *add = mkreq("add", 1, path_params("a", 5));
	cJSON *batch = cJSON_CreateArray();
#if BATCHCASE == 1
	cJSON_AddItemToArray(batch, mkreq_id("change", 0, path_params("a", v)));         /* notification: takes effect, no response */
	cJSON_AddItemToArray(batch, mkreq("change", 2, path_params("a", w)));
	cJSON_AddItemToArray(batch, mkreq("change", 3, path_params("zz", 1)));           /* fails */
#elif BATCHCASE == 2
	cJSON_AddItemToArray(batch, mkreq("change", 2, path_params("a", w)));
#else
	cJSON_AddItemToArray(batch, mkreq("change", 3, path_params("zz", 1)));           /* fails */
	cJSON_AddItemToArray(batch, mkreq("change", 2, path_params("a", w)));
#endif
	scn_build_end();
	__CPROVER_assume(dispatch(&A, add) == 0);
	reset_log();
	int r = dispatch(&A, batch);
	CHECK(r == 0, "C02.batch_keeps_connection");
	struct element *e = element_table_get("a");
	CHECK(e && e->value->valueint == w, "C02.batch_effects_applied_in_order");
#if BATCHCASE == 1
	CHECK(nlog == 2 && LOG[0].id_int == 2 && LOG[0].has_result && LOG[1].id_int == 3 && LOG[1].is_error, "C02.batch_one_response_per_member_with_id_in_order");
#elif BATCHCASE == 2
	CHECK(nlog == 1 && LOG[0].id_int == 2 && LOG[0].has_result, "C02.batch_one_response_per_member_with_id_in_order");
#else
	CHECK(nlog == 2 && LOG[0].id_int == 3 && LOG[0].is_error && LOG[1].id_int == 2 && LOG[1].has_result, "C02.batch_one_response_per_member_with_id_in_order");
#endif
	(void)v;
	WITNESS_END();
}
