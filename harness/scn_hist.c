/* C01 / C04 / C05 - short histories with more than one element, fetch or owner per role (the neighbouring shapes of
 * the one-element skeletons in scn_fetch.c / scn_guard.c), through the real dispatcher and handlers. One history
 * per obligation (-DHIST=n); values symbolic. Every subscriber's view is accumulated from the events it received and
 * compared with the daemon's element set at the end. */
#define MAXLOG 20
#include "scn.h"
#include "hash_abs.h"

const cJSON *credentials_ok(const char *u, char *p) { (void)u; (void)p; return 0; }
cJSON *change_password(const struct peer *p, const cJSON *r, const char *u, char *pw) { (void)p; (void)r; (void)u; (void)pw; return 0; }
static struct peer A, B, C;
extern cJSON *model_parse_result;
static int dispatch(struct peer *p, cJSON *req) { model_parse_result = req; return parse_message("x", 1, p); }
static int ok(struct peer *p, cJSON *req)
{
	int before = nlog;
	int r = dispatch(p, req);
	struct sent *resp = 0; for (int i = before; i < nlog; i++) if (LOG[i].kind == K_RESPONSE && LOG[i].to == p) resp = &LOG[i];
	return r == 0 && resp && resp->has_result && !resp->is_error;
}
static int refused(struct peer *p, cJSON *req)
{
	int before = nlog;
	int r = dispatch(p, req);
	struct sent *resp = 0; int n = 0; for (int i = before; i < nlog; i++) if (LOG[i].kind == K_RESPONSE && LOG[i].to == p) { resp = &LOG[i]; n++; }
	return r == 0 && n == 1 && resp->is_error && !resp->has_result;
}

/* replica of one subscriber for the paths "x" and "y": replay of the events in LOG */
struct view { int has_x, has_y, val_x, val_y, spurious; };
static struct view view_of(const struct peer *p, char fid0)
{
	struct view v = {0, 0, 0, 0, 0};
	for (int i = 0; i < nlog; i++) {
		if (LOG[i].kind != K_EVENT || LOG[i].to != p || LOG[i].id_str[0] != fid0) continue;
		int isx = LOG[i].path[0] == 'x', isy = LOG[i].path[0] == 'y';
		if (!isx && !isy) { v.spurious++; continue; }
		int *has = isx ? &v.has_x : &v.has_y, *val = isx ? &v.val_x : &v.val_y;
		if (LOG[i].event == 'a') { if (*has) v.spurious++; *has = 1; *val = LOG[i].value_int; }
		else if (LOG[i].event == 'c') { if (!*has) v.spurious++; *val = LOG[i].value_int; }
		else if (LOG[i].event == 'r') { if (!*has) v.spurious++; *has = 0; }
	}
	return v;
}
static int view_matches_daemon(struct view v)
{
	struct element *ex = element_table_get("x"), *ey = element_table_get("y");
	if (v.spurious) return 0;
	if ((ex != 0) != v.has_x || (ey != 0) != v.has_y) return 0;
	if (ex && ex->value->valueint != v.val_x) return 0;
	if (ey && ey->value->valueint != v.val_y) return 0;
	return 1;
}

void harness_history(void)
{
	__CPROVER_assume(element_hashtable_create() == 0);
	long baseline = verif_live_blocks;
	mkpeer(&A, true); mkpeer(&B, true); mkpeer(&C, true);
	int v1 = (int)nd_range(0, 999), v2 = (int)nd_range(0, 999), v3 = (int)nd_range(0, 999);
	scn_build_begin();
	cJSON *fb = mkreq("fetch", 1, fetch_params("b"));
	cJSON *addx = mkreq("add", 2, path_params("x", v1));
	cJSON *addy = mkreq("add", 3, path_params("y", v2));
	cJSON *chgx = mkreq("change", 4, path_params("x", v3));
	cJSON *remx = mkreq("remove", 5, path_params("x", NO_VALUE));
	cJSON *remy = mkreq("remove", 6, path_params("y", NO_VALUE));
	cJSON *addx2 = mkreq("add", 7, path_params("x", v2));
	cJSON *fc = mkreq("fetch", 8, fetch_params("c"));
	cJSON *fb2 = mkreq("fetch", 9, fetch_params("d"));
	cJSON *unf = mkreq("unfetch", 10, fetch_params("b"));
	cJSON *chgy = mkreq("change", 11, path_params("y", v3));
	scn_build_end();
	(void)addy; (void)remy; (void)addx2; (void)fc; (void)fb2; (void)unf; (void)chgy; (void)chgx; (void)remx;
#if HIST == 0
	/* one owner, two elements: B fetches; A adds x, y; changes x; removes x; y stays */
	__CPROVER_assume(ok(&B, fb) && ok(&A, addx) && ok(&A, addy) && ok(&A, chgx) && ok(&A, remx));
	{ struct element *ey = element_table_get("y");
	  CHECK(element_table_get("x") == 0 && ey != 0 && ey->peer == &A && ey->value->valueint == v2, "C04.remove_of_one_element_leaves_the_owners_other_elements"); }
	CHECK(view_matches_daemon(view_of(&B, 'b')), "C01.replica_equals_the_element_set");
	cJSON_Delete(remy); cJSON_Delete(addx2); cJSON_Delete(fc); cJSON_Delete(fb2); cJSON_Delete(unf); cJSON_Delete(chgy);
#elif HIST == 1
	/* the owner of two elements leaves: the subscriber sees both removed, a late subscriber sees nothing */
	__CPROVER_assume(ok(&B, fb) && ok(&A, addx) && ok(&A, addy));
	free_peer_resources(&A); dead_peer = &A;
	CHECK(element_table_get("x") == 0 && element_table_get("y") == 0, "C05.owned_elements_disappear");
	CHECK(count_events(&B, 'r', "x") == 1 && count_events(&B, 'r', "y") == 1, "C05.subscribers_see_remove_of_every_owned_element_once");
	CHECK(view_matches_daemon(view_of(&B, 'b')), "C01.replica_equals_the_element_set");
	__CPROVER_assume(ok(&C, fc));
	CHECK(count_events(&C, 0, 0) == 0, "C01.late_subscriber_sees_nothing_of_removed_elements");
	cJSON_Delete(chgx); cJSON_Delete(remx); cJSON_Delete(remy); cJSON_Delete(addx2); cJSON_Delete(fb2); cJSON_Delete(unf); cJSON_Delete(chgy);
#elif HIST == 2
	/* a path is free again after its owner removed it / left: another peer may add it and then owns it */
	__CPROVER_assume(ok(&B, fb) && ok(&A, addx) && ok(&A, remx));
	CHECK(ok(&C, addx2), "C04.path_is_free_again_after_remove");
	struct element *e = element_table_get("x");
	CHECK(e && e->peer == &C && e->value->valueint == v2, "C04.re_added_path_belongs_to_the_new_owner");
	CHECK(refused(&A, chgx), "C04.only_owner_may_change_or_remove");
	e = element_table_get("x");
	CHECK(e && e->peer == &C && e->value->valueint == v2, "C04.request_answered_with_error_changed_nothing");
	CHECK(view_matches_daemon(view_of(&B, 'b')), "C01.replica_equals_the_element_set");
	cJSON_Delete(addy); cJSON_Delete(remy); cJSON_Delete(fc); cJSON_Delete(fb2); cJSON_Delete(unf); cJSON_Delete(chgy);
#elif HIST == 3
	/* same, the first owner left instead of removing */
	__CPROVER_assume(ok(&B, fb) && ok(&A, addx));
	free_peer_resources(&A); dead_peer = &A;
	CHECK(ok(&C, addx2), "C04.path_is_free_again_after_its_owner_left");
	struct element *e = element_table_get("x");
	CHECK(e && e->peer == &C && e->value->valueint == v2, "C04.re_added_path_belongs_to_the_new_owner");
	CHECK(view_matches_daemon(view_of(&B, 'b')), "C01.replica_equals_the_element_set");
	cJSON_Delete(addy); cJSON_Delete(chgx); cJSON_Delete(remx); cJSON_Delete(remy); cJSON_Delete(fc); cJSON_Delete(fb2); cJSON_Delete(unf); cJSON_Delete(chgy);
#elif HIST == 4
	/* two fetches of one peer and one of another: unfetch ends exactly that fetch */
	__CPROVER_assume(ok(&A, addx) && ok(&B, fb) && ok(&B, fb2) && ok(&C, fc) && ok(&B, unf));
	int mark = nlog;
	__CPROVER_assume(ok(&A, chgx) && ok(&A, addy));
	int to_b = 0, to_d = 0, to_c = 0;
	for (int i = mark; i < nlog; i++) if (LOG[i].kind == K_EVENT) { if (LOG[i].to == &B && LOG[i].id_str[0] == 'b') to_b++; if (LOG[i].to == &B && LOG[i].id_str[0] == 'd') to_d++; if (LOG[i].to == &C) to_c++; }
	CHECK(to_b == 0, "C01.nothing_delivered_after_unfetch");
	CHECK(to_d == 2 && to_c == 2, "C01.other_fetches_of_the_same_and_of_other_peers_continue");
	CHECK(view_matches_daemon(view_of(&B, 'd')) && view_matches_daemon(view_of(&C, 'c')), "C01.replica_equals_the_element_set");
	cJSON_Delete(remx); cJSON_Delete(remy); cJSON_Delete(addx2);cJSON_Delete(chgy);
#elif HIST == 5
	/* two owners: A owns x, C owns y; each may change only its own; B's replica follows both */
	__CPROVER_assume(ok(&B, fb) && ok(&A, addx) && ok(&C, addy) && ok(&A, chgx));
	CHECK(refused(&A, chgy), "C04.only_owner_may_change_or_remove");
	CHECK(refused(&C, remx), "C04.only_owner_may_change_or_remove");
	struct element *ex = element_table_get("x"), *ey = element_table_get("y");
	CHECK(ex && ex->peer == &A && ex->value->valueint == v3 && ey && ey->peer == &C && ey->value->valueint == v2, "C04.request_answered_with_error_changed_nothing");
	CHECK(view_matches_daemon(view_of(&B, 'b')), "C01.replica_equals_the_element_set");
	free_peer_resources(&C); dead_peer = &C;
	CHECK(element_table_get("y") == 0 && element_table_get("x") != 0, "C05.other_peers_elements_unaffected");
	CHECK(view_matches_daemon(view_of(&B, 'b')), "C01.replica_equals_the_element_set");
	dead_peer = 0;
	cJSON_Delete(remy); cJSON_Delete(addx2); cJSON_Delete(fc); cJSON_Delete(fb2); cJSON_Delete(unf);
#elif HIST == 6
	/* a peer's own fetch reports its own elements like anybody else's: A fetches, then adds and changes x itself */
	{ scn_build_begin(); cJSON *fa = mkreq("fetch", 12, fetch_params("a")); scn_build_end();
	  __CPROVER_assume(ok(&A, fa) && ok(&B, fb) && ok(&A, addx) && ok(&A, chgx)); }
	CHECK(count_events(&A, 'a', "x") == 1 && count_events(&A, 'c', "x") == 1, "C01.own_fetch_reports_own_elements");
	CHECK(view_matches_daemon(view_of(&A, 'a')) && view_matches_daemon(view_of(&B, 'b')), "C01.replica_equals_the_element_set");
	cJSON_Delete(addy); cJSON_Delete(remx); cJSON_Delete(remy); cJSON_Delete(addx2); cJSON_Delete(fc); cJSON_Delete(fb2); cJSON_Delete(unf); cJSON_Delete(chgy);
#endif
	dead_peer = 0;
	free_peer_resources(&B);
#if HIST != 1 && HIST != 3
	free_peer_resources(&A);
#endif
#if HIST != 5
	free_peer_resources(&C);
#endif
	CHECK(verif_live_blocks == baseline && timers_alive() == 0, "C07.everything_released_once_all_peers_are_gone");
	WITNESS_END();
}
