/* C13 - HTTP front door: the request-line callback of the real http_connection.c with the real
 * alloc_websocket_peer/init_websocket_peer (websocket_peer.c), websocket_init (websocket.c), init_peer (peer.c).
 * The third-party http_parser is replaced by a contract stub. */
#include "scn.h"
#include "hash_abs.h"
#include "http-parser/http_parser.h"
#include "websocket.h"
#include "websocket_peer.h"

/* ---- http_parser contract stub: may report the URL (once) and then parse all or only a prefix of the line */
static int parser_mode;   /* 0: url = target, whole line ok; 1: url = target, then syntax error in the rest of the line;
                             2: syntax error before the url; 3: url = other path (callback refuses);
                             4: the chunk holds a start line ended by a bare LF (which http_parser tolerates) and a header line behind it:
                                the parser goes on to the header callbacks inside the same call */
static const char TARGET[] = "/api/jet/";
static const char OTHER[] = "/index.html";
static int on_url(http_parser *parser, const char *at, size_t length);      /* http_connection.c, included below */
size_t http_parser_execute(http_parser *parser, const http_parser_settings *settings, const char *data, size_t len)
{
	(void)data;
	parser->method = HTTP_GET;
	if (parser_mode == 2) return len - 1;
	const char *url = parser_mode == 3 ? OTHER : TARGET;
	/* direct calls guarded by pointer comparisons: an indirect call makes CBMC explore every address-taken function of that type */
	__CPROVER_assume(settings->on_url == on_url);
	int r = on_url(parser, url, strlen(url));
	if (r != 0) return len - 1;              /* a callback error stops the parser */
	if (parser_mode == 4) {
		static const char hf[] = "Sec-WebSocket-Version", hv[] = "13";
		/* (direct calls after a pointer comparison: an indirect call here makes CBMC explore every type-compatible function) */
		if (settings->on_header_field == websocket_upgrade_on_header_field) {
			/* the callbacks work on the handler's object (parser->data): running them before it exists is a NULL dereference in the real parser run */
			CHECK(parser->data != 0, "C06.header_callbacks_never_run_before_the_handlers_object_exists");
			if (parser->data != 0) {
				if (websocket_upgrade_on_header_field(parser, hf, sizeof(hf) - 1) != 0) return len - 1;
				if (settings->on_header_value == websocket_upgrade_on_header_value && websocket_upgrade_on_header_value(parser, hv, sizeof(hv) - 1) != 0) return len - 1;
			}
		}
	}
	return parser_mode == 1 ? len - 1 : len;
}
void http_parser_url_init(struct http_parser_url *u) { u->field_set = 0; }
int http_parser_parse_url(const char *buf, size_t buflen, int is_connect, struct http_parser_url *u)
{ (void)buf; (void)is_connect; u->field_set = 1 << UF_PATH; u->field_data[UF_PATH].off = 0; u->field_data[UF_PATH].len = (uint16_t)buflen; return 0; }
void http_parser_settings_init(http_parser_settings *s) { s->on_url = 0; s->on_header_field = 0; s->on_header_value = 0; s->on_headers_complete = 0; s->on_body = 0; s->on_message_complete = 0; }
void http_parser_init(http_parser *p, enum http_parser_type t) { (void)t; p->data = 0; p->upgrade = 0; }

const cJSON *credentials_ok(const char *u, char *p) { (void)u; (void)p; return 0; }
cJSON *change_password(const struct peer *p, const cJSON *r, const char *u, char *pw) { (void)p; (void)r; (void)u; (void)pw; return 0; }
void cjet_get_random_bytes(void *b, size_t n) { (void)b; (void)n; }

#include "http_connection.c"

/* ---- buffered reader of the connection */
static int conn_closed, writes_http; static char status_line[16];
static void (*err_handler)(void *); static void *err_ctx;
static int br_close(void *t) { (void)t; CHECK(!conn_closed, "C07.connection_closed_once"); conn_closed = 1; return 0; }
static int br_writev(void *t, struct socket_io_vector *iov, unsigned int n)
{ (void)t; CHECK(!conn_closed, "C05.no_write_after_close"); writes_http++; if (n >= 1) { const char *s = iov[0].iov_base; for (int i = 0; i < 12 && (size_t)i < iov[0].iov_len; i++) status_line[i] = s[i]; } return 0; }
static int br_read_until(void *t, const char *d, enum bs_read_callback_return (*cb)(void *, uint8_t *, size_t), void *c) { (void)t; (void)d; (void)cb; (void)c; return 0; }
static int br_read_exactly(void *t, size_t n, enum bs_read_callback_return (*cb)(void *, uint8_t *, size_t), void *c) { (void)t; (void)n; (void)cb; (void)c; return 0; }
static void br_set_error(void *t, void (*e)(void *), void *c) { (void)t; err_handler = e; err_ctx = c; }

static struct http_server SERVER;
static struct url_handler HANDLER[1];

void harness_request_line(void)
{
	long baseline = verif_live_blocks;
	HANDLER[0].request_target = TARGET;
	HANDLER[0].create = alloc_websocket_peer;
	HANDLER[0].on_header_field = websocket_upgrade_on_header_field;
	HANDLER[0].on_header_value = websocket_upgrade_on_header_value;
	HANDLER[0].on_headers_complete = websocket_upgrade_on_headers_complete;
	SERVER.handler = HANDLER; SERVER.num_handlers = 1; SERVER.ev.loop = 0;
	struct http_connection *c = alloc_http_connection();
	__CPROVER_assume(c != 0);
	struct buffered_reader br = { .this_ptr = &SERVER, .close = br_close, .read_exactly = br_read_exactly, .read_until = br_read_until,
	                              .set_error_handler = br_set_error, .writev = br_writev };
	int r = init_http_connection(c, &SERVER, &br, true);
	__CPROVER_assume(r == 0);
	int peers_before = get_number_of_peers();
	parser_mode = PARSER_MODE;
#if PARSER_MODE == 4
	static uint8_t line[8] = "GET /\nA\r";          /* a bare LF inside the chunk that ends with the first CRLF (last byte below) */
	line[7] = '\n'; line[6] = '\r'; line[5] = '\n';
#else
	static uint8_t line[8] = "GET /x\r\n";
#endif
#ifdef ALLOC_FAIL
	/* C15: the ALLOC_FAIL-th allocation attempt made while the start line is handled (websocket peer, its routing table, ...) fails */
	verif_alloc_calls = 0; verif_alloc_failed = 0; verif_fail_at = ALLOC_FAIL;
#endif
	enum bs_read_callback_return rc = read_start_line(c, line, 8);
#ifdef ALLOC_FAIL
	verif_fail_at = -1;
	if (verif_alloc_failed) REACH("allocation_failed");
#endif
	if (rc == BS_CLOSED) {
		CHECK(conn_closed, "C13.refused_exchange_closes_the_connection");
		/* "answered with an HTTP error status or closed": an answer is optional, but if there is one it is a single error status */
		CHECK(writes_http <= 1 && (writes_http == 0 || (status_line[0] == 'H' && status_line[9] >= '4')), "C13.refused_exchange_answered_with_error_status_if_at_all");
		CHECK(get_number_of_peers() == peers_before && list_empty(get_peer_list()), "C13.refused_exchange_leaves_no_peer");
		CHECK(verif_live_blocks == baseline, "C13.refused_exchange_leaves_no_memory");
		REACH("refused");
	} else {
		CHECK(!conn_closed && writes_http == 0, "C13.valid_request_line_keeps_connection");
		CHECK(get_number_of_peers() == peers_before + 1, "C13.upgrade_target_creates_one_peer");
		/* the connection ends now (client closes half-way): everything goes away */
		CHECK(err_handler != 0, "C13.peer_teardown_registered_with_the_connection");
		if (err_handler) err_handler(err_ctx);
		CHECK(conn_closed && get_number_of_peers() == peers_before && list_empty(get_peer_list()), "C13.closed_half_way_leaves_no_peer");
		CHECK(verif_live_blocks == baseline, "C13.closed_half_way_leaves_no_memory");
		REACH("accepted");
	}
	WITNESS_END();
}
