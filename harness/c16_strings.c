/* C16 - the comparison primitives behind the case-insensitive matchers: real src/posix/jet_string.c (jet_strcasecmp,
 * jet_strncasecmp) and src/linux/jet_string.c (jet_strcasestr) against ASCII case folding written here
 * ('A'..'Z' <-> 'a'..'z' and nothing else, every other byte - '@', '[', '`', '{', bytes >= 0x80 - only equals itself).
 * On the pinned tree the functions forward to libc, which is represented by model/strfn_ref.c ("C" locale). */
#define _GNU_SOURCE
#include "verif.h"
#include <string.h>
#include "posix/jet_string.c"
#include "linux/jet_string.c"

#ifndef SL
#define SL 4
#endif
static int r_lower(int c) { return (c >= 'A' && c <= 'Z') ? c + 32 : c; }
static size_t any_str(char *s)
{
	size_t n = nd_size();
	__CPROVER_assume(n <= SL);
	for (size_t i = 0; i < SL; i++) { uint8_t c = nd_u8(); __CPROVER_assume(c != 0); s[i] = i < n ? (char)c : 0; }
	s[SL] = 0;
	return n;
}
static int ref_cmp(const char *a, const char *b, size_t n)
{
	for (size_t i = 0; i <= SL; i++) {
		if (i >= n) return 0;
		int x = r_lower((unsigned char)a[i]), y = r_lower((unsigned char)b[i]);
		if (x != y) return x < y ? -1 : 1;
		if (!x) return 0;
	}
	return 0;
}
static int same_sign(int r, int ref) { return (r == 0) == (ref == 0) && (r < 0) == (ref < 0); }

void harness_strcasecmp(void)
{
	char a[SL + 1], b[SL + 1];
	any_str(a); any_str(b);
	CHECK(same_sign(jet_strcasecmp(a, b), ref_cmp(a, b, SL + 1)), "C16.strcasecmp_is_ascii_case_folding_comparison");
	size_t n = nd_size(); __CPROVER_assume(n <= SL + 1);
	CHECK(same_sign(jet_strncasecmp(a, b, n), ref_cmp(a, b, n)), "C16.strncasecmp_is_ascii_case_folding_comparison_of_n_bytes");
	if (ref_cmp(a, b, SL + 1) == 0 && a[0] != b[0]) REACH("equal_by_folding");
	WITNESS_END();
}

void harness_strcasestr(void)
{
	char h[SL + 1], nd_[SL + 1];
	size_t hl = any_str(h), nl = any_str(nd_);
	long ref = -1;
	for (size_t i = 0; i <= SL; i++) {
		if (ref >= 0 || i > hl) continue;
		int m = 1;
		for (size_t k = 0; k < SL; k++) if (k < nl && (i + k >= hl || r_lower((unsigned char)h[i + k]) != r_lower((unsigned char)nd_[k]))) m = 0;
		if (m) ref = (long)i;
	}
	const char *r = jet_strcasestr(h, nd_);
	CHECK(r == (ref < 0 ? (const char *)0 : h + ref), "C16.strcasestr_finds_first_case_folded_occurrence");
	if (ref > 0 && nl >= 2) REACH("found_behind_partial_match");
	WITNESS_END();
}
