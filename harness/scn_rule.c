/* C16 / C06 - fetch rule parsing on the real create_fetch/add_matchers through the dispatcher, and the effect of
 * the parsed rule on which element is reported. One rule shape per obligation (-DRULE=n); operand bytes symbolic. */
#include "scn.h"
#include "hash_abs.h"
#ifndef OPCHAR
#define OPCHAR 'a'
#endif

const cJSON *credentials_ok(const char *u, char *p) { (void)u; (void)p; return 0; }
cJSON *change_password(const struct peer *p, const cJSON *r, const char *u, char *pw) { (void)p; (void)r; (void)u; (void)pw; return 0; }
static struct peer A, B;
extern cJSON *model_parse_result;
static int dispatch(struct peer *p, cJSON *req) { model_parse_result = req; return parse_message("x", 1, p); }
static int lower(int c) { return (c >= 'A' && c <= 'Z') ? c + 32 : c; }
static cJSON *str2(char c0, char c1) { cJSON *s = cJSON_CreateString("??"); s->valuestring[0] = c0; s->valuestring[1] = c1; return s; }

void harness_rule(void)
{
	__CPROVER_assume(element_hashtable_create() == 0);
	mkpeer(&A, true); mkpeer(&B, true);
	int v = (int)nd_range(0, 999);             /* symbolic state value carried by the events */
	scn_build_begin();
	cJSON *add = mkreq("add", 1, path_params("ab", v));
	scn_build_end();
#ifndef FETCH_FIRST
	__CPROVER_assume(dispatch(&A, add) == 0);
#endif
	/* operand byte fixed per obligation: a symbolic byte inside a string makes every strlen()/allocation size
	   symbolic; all byte values are covered symbolically at the match functions themselves (C16.match_functions) */
	char c = OPCHAR;
	long blocks_base = verif_live_blocks;
	scn_build_begin();
	cJSON *fp = fetch_params("f");
	cJSON *rule = cJSON_CreateObject();
	int expect_refused = 0, expect_match = 0;
#if RULE == 0
	cJSON_AddItemToObject(rule, "equals", str2(c, 'b')); expect_match = (c == 'a');
#elif RULE == 1
	cJSON_AddItemToObject(rule, "equals", str2(c, 'b')); cJSON_AddItemToObject(rule, "caseInsensitive", cJSON_CreateTrue()); expect_match = (lower((unsigned char)c) == 'a');
#elif RULE == 2
	cJSON_AddItemToObject(rule, "startsWith", str2('a', c)); cJSON_AddItemToObject(rule, "endsWith", str2(c, 'b')); expect_match = 0;   /* c would have to be 'b' and 'a' */
#elif RULE == 3
	cJSON_AddItemToObject(rule, "bogus", str2(c, 'b')); expect_refused = 1;
#elif RULE == 4
	cJSON_AddItemToObject(rule, "equals", mknumber(c)); expect_refused = 1;
#elif RULE == 5
	/* repeated option key: refused, or treated as given once */
	cJSON_AddItemToObject(rule, "caseInsensitive", cJSON_CreateTrue()); cJSON_AddItemToObject(rule, "caseInsensitive", cJSON_CreateTrue());
	cJSON_AddItemToObject(rule, "equals", str2(c, 'b')); expect_match = (lower((unsigned char)c) == 'a');
#elif RULE == 6
	cJSON_AddItemToObject(rule, "equals", str2(c, 'b')); cJSON_AddItemToObject(rule, "startsWith", str2('a', 'b'));
	cJSON_AddItemToObject(rule, "endsWith", str2('a', 'b')); cJSON_AddItemToObject(rule, "contains", str2('a', 'b')); expect_refused = 1;   /* 4 > CONFIG max 3 */
#elif RULE == 7
	{ cJSON *arr = cJSON_CreateArray(); cJSON *s1 = cJSON_CreateString("?"); s1->valuestring[0] = c; cJSON_AddItemToArray(arr, s1); cJSON_AddItemToArray(arr, cJSON_CreateString("b"));
	  cJSON_AddItemToObject(rule, "containsAllOf", arr); expect_match = (c == 'a' || c == 'b'); }
#elif RULE == 8
	cJSON_AddItemToObject(rule, "equalsNot", str2(c, 'b')); cJSON_AddItemToObject(rule, "contains", str2('a', 'b')); expect_match = (c != 'a');
#elif RULE == 10
	{ cJSON *arr = cJSON_CreateArray(); cJSON *s1 = cJSON_CreateString("?"); s1->valuestring[0] = c; cJSON_AddItemToArray(arr, s1); cJSON_AddItemToArray(arr, cJSON_CreateString("Z"));
	  cJSON_AddItemToObject(rule, "containsAllOf", arr); cJSON_AddItemToObject(rule, "caseInsensitive", cJSON_CreateTrue()); expect_match = 0; }   /* "z" is not contained */
#elif RULE == 11
	{ cJSON *arr = cJSON_CreateArray(); cJSON *s1 = cJSON_CreateString("?"); s1->valuestring[0] = c; cJSON_AddItemToArray(arr, s1); cJSON_AddItemToArray(arr, cJSON_CreateString("B"));
	  cJSON_AddItemToObject(rule, "containsAllOf", arr); cJSON_AddItemToObject(rule, "caseInsensitive", cJSON_CreateTrue()); expect_match = (lower((unsigned char)c) == 'a' || lower((unsigned char)c) == 'b'); }
#elif RULE == 12
	cJSON_AddItemToObject(rule, "equalsNot", str2(c, 'B')); cJSON_AddItemToObject(rule, "caseInsensitive", cJSON_CreateTrue()); expect_match = (lower((unsigned char)c) != 'a');
#elif RULE == 13
	cJSON_AddItemToObject(rule, "contains", str2(c, 'B')); cJSON_AddItemToObject(rule, "caseInsensitive", cJSON_CreateTrue()); expect_match = (lower((unsigned char)c) == 'a');
#elif RULE == 14
	cJSON_AddItemToObject(rule, "startsWith", str2(c, 'B')); cJSON_AddItemToObject(rule, "caseInsensitive", cJSON_CreateTrue()); expect_match = (lower((unsigned char)c) == 'a');
#elif RULE == 15
	cJSON_AddItemToObject(rule, "endsWith", str2(c, 'B')); cJSON_AddItemToObject(rule, "caseInsensitive", cJSON_CreateTrue()); expect_match = (lower((unsigned char)c) == 'a');
#elif RULE == 22
	/* containsAllOf whose array holds a non-string behind two strings: refused, and the strings copied so far are released */
	{ cJSON *arr = cJSON_CreateArray(); cJSON *s1 = cJSON_CreateString("?"); s1->valuestring[0] = c; cJSON_AddItemToArray(arr, s1); cJSON_AddItemToArray(arr, cJSON_CreateString("b"));
	  cJSON_AddItemToArray(arr, mknumber(3)); cJSON_AddItemToObject(rule, "containsAllOf", arr); expect_refused = 1; }
#elif RULE == 20
	/* exactly the configured maximum of matchers (3 in the verification configuration): accepted */
	cJSON_AddItemToObject(rule, "equals", str2(c, 'b')); cJSON_AddItemToObject(rule, "startsWith", str2('a', 'b')); cJSON_AddItemToObject(rule, "endsWith", str2('a', 'b'));
	expect_match = (c == 'a');
#elif RULE == 21
	/* the maximum of matchers plus the option key (which is not a matcher): accepted */
	cJSON_AddItemToObject(rule, "equals", str2(c, 'B')); cJSON_AddItemToObject(rule, "startsWith", str2('A', 'b')); cJSON_AddItemToObject(rule, "caseInsensitive", cJSON_CreateTrue());
	cJSON_AddItemToObject(rule, "endsWith", str2('a', 'B')); expect_match = (lower((unsigned char)c) == 'a');
#elif RULE == 16
	/* a key that merely starts with the option's name is an unknown matcher, not the option */
	cJSON_AddItemToObject(rule, "caseInsensitiveX", str2(c, 'b')); expect_refused = 1;
#elif RULE == 17
	cJSON_AddItemToObject(rule, "equals", str2(c, 'b')); cJSON_AddItemToObject(rule, "caseInsensitiveX", cJSON_CreateTrue()); expect_refused = 1;
#elif RULE == 18
	/* the option's name in another case is not the option: refused as an unknown matcher (never a half-built rule) */
	cJSON_AddItemToObject(rule, "equals", str2(c, 'b')); cJSON_AddItemToObject(rule, "CaseInsensitive", cJSON_CreateTrue()); expect_refused = 1;
#elif RULE == 19
	cJSON_AddItemToObject(rule, "caseinsensitive", cJSON_CreateTrue()); cJSON_AddItemToObject(rule, "startsWith", str2(c, 'b')); expect_refused = 1;
#elif RULE == 9
	/* only option keys, twice: refused or fetch-all; never a crash */
	cJSON_AddItemToObject(rule, "caseInsensitive", cJSON_CreateTrue()); cJSON_AddItemToObject(rule, "caseInsensitive", cJSON_CreateTrue()); expect_match = 1;
#endif
#ifdef VIA_GET
	/* the same rule in a get request: the result array holds exactly the matching elements; get leaves nothing behind */
	cJSON_Delete(fp);
	cJSON *gp = cJSON_CreateObject(); cJSON_AddItemToObject(gp, "path", rule);
	cJSON *greq = mkreq("get", 2, gp);
	scn_build_end();
	reset_log();
	int gr = dispatch(&B, greq);
	CHECK(gr == 0, "C16.get_keeps_connection");
	struct sent *gresp = last_of(&B, K_RESPONSE);
	CHECK(count_responses(&B) == 1 && gresp && nlog == 1, "C02.get_answered_exactly_once_and_nothing_else_sent");
	int grefused = gresp && gresp->is_error;
#if RULE == 5 || RULE == 9
	if (grefused) expect_refused = 1;
#endif
	if (expect_refused) { CHECK(grefused, "C16.bad_rule_refused_with_error"); REACH("refused"); }
	else {
		CHECK(!grefused && gresp->has_result, "C16.well_formed_rule_accepted");
		CHECK(gresp->result_items == (expect_match ? 1 : 0), "C16.get_returns_exactly_the_matching_elements");
		if (expect_match) REACH("matched"); else REACH("not_matched");
	}
	CHECK(list_empty(&B.fetch_list) && verif_live_blocks == blocks_base, "C16.get_leaves_no_subscription_and_nothing_allocated");
	WITNESS_END();
#else
	cJSON_AddItemToObject(fp, "path", rule);
	cJSON *req = mkreq("fetch", 2, fp);
	scn_build_end();
	reset_log();
	int r = dispatch(&B, req);
	CHECK(r == 0, "C16.fetch_keeps_connection");
	struct sent *resp = last_of(&B, K_RESPONSE);
	CHECK(count_responses(&B) == 1 && resp, "C02.fetch_answered_exactly_once");
	int refused = resp && resp->is_error;
	int adds = count_events(&B, 'a', "a");
#if RULE == 5 || RULE == 9
	/* either answer is acceptable for a repeated option key; what follows must be consistent with it */
	if (refused) expect_refused = 1;
#endif
	if (expect_refused) {
		CHECK(refused, "C16.bad_rule_refused_with_error");
		CHECK(adds == 0 && list_empty(&B.fetch_list), "C16.refused_rule_has_no_side_effects");
		CHECK(verif_live_blocks == blocks_base, "C16.refused_rule_leaves_nothing_allocated");
		REACH("refused");
	} else {
		CHECK(!refused, "C16.well_formed_rule_accepted");
#ifdef FETCH_FIRST
		/* the element is added after the fetch: the rule is applied to the new element just the same */
		CHECK(adds == 0, "C01.no_event_for_refused_request");
		reset_log();
		__CPROVER_assume(dispatch(&A, add) == 0);
		adds = count_events(&B, 'a', "a");
		resp = 0;
#endif
		CHECK(adds == (expect_match ? 1 : 0), "C16.rule_selects_exactly_the_matching_paths");
#ifndef FETCH_FIRST
		if (adds == 1) CHECK(LOG[0].kind == K_EVENT && LOG[0].value_int == v && resp == &LOG[nlog - 1], "C01.adds_for_existing_matches_precede_fetch_response");
#else
		if (adds == 1) CHECK(LOG[0].kind == K_EVENT && LOG[0].to == &B && LOG[0].value_int == v, "C01.add_event_carries_value_and_fetch_id");
#endif
		/* the subscription follows the rule for later events too */
		reset_log();
		scn_build_begin();
		cJSON *chg = mkreq("change", 3, path_params("ab", 6));
		scn_build_end();
		int r2 = dispatch(&A, chg);
		CHECK(r2 == 0, "C06.change_after_rule_fetch_is_safe");
		CHECK(count_events(&B, 'c', "a") == (expect_match ? 1 : 0), "C01.change_reported_iff_element_was_reported");
		if (expect_match) REACH("matched"); else REACH("not_matched");
	}
	WITNESS_END();
#endif
}
