/* Leaf obligations over the real src/linux/linux_io.c (C07 descriptor hygiene, C08 origin, C11 accept errors).
 * System calls are renamed to symbolic stubs (macros below rename declaration and use consistently). */
#include "verif.h"
#include <errno.h>
#include <sys/types.h>
#include <sys/socket.h>
#include <sys/un.h>
#include <netinet/in.h>
#include <fcntl.h>
#include <unistd.h>
#include <string.h>

/* ---- ghost descriptor table */
#define FD_UNUSED 0
#define FD_OPEN 1
#define FD_CLOSED 2
#define NFD 16
static int fd_state[NFD];
static int double_close, foreign_close;

int verif_close(int fd)
{
	if (fd < 0 || fd >= NFD || fd_state[fd] == FD_UNUSED) { foreign_close++; CHECK(0, "C07.closes_only_own_descriptors"); return -1; }
	if (fd_state[fd] == FD_CLOSED) double_close++;
	CHECK(fd_state[fd] == FD_OPEN, "C07.no_double_close");
	fd_state[fd] = FD_CLOSED;
	return 0;
}
static int fail_fcntl_get, fail_fcntl_set, fail_getsockname, fail_sockopt_at, sockopt_calls, family;
int verif_fcntl(int fd, int cmd, ...)
{
	CHECK(fd >= 0 && fd < NFD && fd_state[fd] == FD_OPEN, "C07.syscall_on_open_descriptor");
	if (cmd == F_GETFL) return fail_fcntl_get ? -1 : 0;
	return fail_fcntl_set ? -1 : 0;
}
int verif_getsockname(int fd, struct sockaddr *addr, socklen_t *len)
{
	(void)len;
	CHECK(fd >= 0 && fd < NFD && fd_state[fd] == FD_OPEN, "C07.syscall_on_open_descriptor");
	if (fail_getsockname) return -1;
	addr->sa_family = (sa_family_t)family;
	return 0;
}
int verif_setsockopt(int fd, int level, int optname, const void *optval, socklen_t optlen)
{
	(void)level; (void)optname; (void)optval; (void)optlen;
	CHECK(fd >= 0 && fd < NFD && fd_state[fd] == FD_OPEN, "C07.syscall_on_open_descriptor");
	return (sockopt_calls++ == fail_sockopt_at) ? -1 : 0;
}
static int accept_calls, accept_errno_first, accept_gives_fd, second_queued;   /* second_queued: a healthy connection is queued behind the first attempt */
int verif_accept(int fd, struct sockaddr *addr, socklen_t *len)
{
	(void)fd; (void)len;
	accept_calls++;
	if (accept_calls == 1 && !accept_gives_fd) { errno = accept_errno_first; return -1; }
	if (accept_calls == 1) { fd_state[9] = FD_OPEN; addr->sa_family = (sa_family_t)family; return 9; }
	if (accept_calls == 2 && second_queued) { fd_state[10] = FD_OPEN; addr->sa_family = (sa_family_t)family; return 10; }
	errno = EAGAIN;
	return -1;
}

#define close verif_close
#define fcntl verif_fcntl
#define getsockname(fd, a, l) verif_getsockname(fd, (struct sockaddr *)(a), l)
#define setsockopt verif_setsockopt
#define accept(fd, a, l) verif_accept(fd, (struct sockaddr *)(a), l)
#include "linux/linux_io.c"
#undef close
#undef fcntl
#undef getsockname
#undef setsockopt
#undef accept

/* ---- collaborators of the connection set-up functions */
void log_err(const char *f, ...) { (void)f; }
static int fail_alloc_peer, fail_alloc_bs, fail_alloc_conn, fail_init_conn, fail_init_peer;
static struct socket_peer PEER;
static struct buffered_socket BSOCK;
static struct http_connection CONN;
static int bs_owner_fd = -1, peer_inited, conn_inited, freed_objs;
struct socket_peer *alloc_jet_peer(void) { return fail_alloc_peer ? 0 : &PEER; }
struct buffered_socket *buffered_socket_acquire(void) { return fail_alloc_bs ? 0 : &BSOCK; }
struct http_connection *alloc_http_connection(void) { return fail_alloc_conn ? 0 : &CONN; }
void buffered_socket_init(struct buffered_socket *bs, socket_type sock, struct eventloop *loop, void (*error)(void *), void *ctx)
{ (void)bs; (void)loop; (void)error; (void)ctx; bs_owner_fd = sock; }
int init_socket_peer(struct socket_peer *p, struct buffered_reader *reader, bool is_local) { (void)p; (void)reader; (void)is_local; if (fail_init_peer) return -1; peer_inited = 1; return 0; }
int init_http_connection(struct http_connection *c, const struct http_server *s, struct buffered_reader *r, bool l)
{ (void)c; (void)s; (void)r; (void)l; if (fail_init_conn) return -1; conn_inited = 1; return 0; }
void cjet_free(void *p) { (void)p; freed_objs++; }
void free_peer_on_error(void *c) { (void)c; }
void free_connection(void *c) { (void)c; }

static void choose_faults(void)
{
	fail_fcntl_get = nd_bool(); fail_fcntl_set = nd_bool(); fail_getsockname = nd_bool();
	fail_sockopt_at = (int)nd_range(-1, 5);
	family = (int)nd_range(0, 3) == 0 ? AF_UNIX : (nd_bool() ? AF_INET : AF_INET6);
	fail_alloc_peer = nd_bool(); fail_alloc_bs = nd_bool(); fail_alloc_conn = nd_bool(); fail_init_conn = nd_bool(); fail_init_peer = nd_bool();
}

/* ================================================================== C07.fd_hygiene */
void harness_fd_jet(void)
{
	choose_faults();
	struct io_event ev; ev.sock = 3; ev.loop = 0;
	fd_state[7] = FD_OPEN;
	handle_new_jet_connection(&ev, 7, nd_bool());
	if (peer_inited) { CHECK(fd_state[7] == FD_OPEN && bs_owner_fd == 7, "C07.established_connection_owns_open_descriptor"); REACH("jet_established"); }
	else { CHECK(fd_state[7] == FD_CLOSED, "C07.fd_closed_when_setup_fails"); REACH("jet_setup_failed"); }
	WITNESS_END();
}
static struct http_server SERVER;
void harness_fd_http(void)
{
	choose_faults();
	SERVER.ev.sock = 3; SERVER.ev.loop = 0;
	fd_state[7] = FD_OPEN;
	handle_http(&SERVER.ev, 7, nd_bool());
	if (conn_inited) { CHECK(fd_state[7] == FD_OPEN && bs_owner_fd == 7, "C07.established_connection_owns_open_descriptor"); REACH("http_established"); }
	else { CHECK(fd_state[7] == FD_CLOSED, "C07.fd_closed_when_setup_fails"); REACH("http_setup_failed"); }
	WITNESS_END();
}

/* ================================================================== C11.accept_errors
 * accept(2), "Error handling": Linux passes already-pending network errors on the new socket as an error
 * code from accept(); for reliable operation the application should treat ENETDOWN, EPROTO, ENOPROTOOPT,
 * EHOSTDOWN, ENONET, EHOSTUNREACH, EOPNOTSUPP, ENETUNREACH like EAGAIN. ECONNABORTED/EINTR: a connection
 * attempt was aborted / the call was interrupted. EMFILE/ENFILE/ENOBUFS/ENOMEM: resource exhaustion caused
 * by other connections. None of them may stop the daemon. */
static int transient_accept_errno(int e)
{
	return e == EAGAIN || e == EWOULDBLOCK || e == ECONNABORTED || e == EINTR || e == EPROTO || e == ENETDOWN ||
	       e == ENOPROTOOPT || e == EHOSTDOWN || e == ENONET || e == EHOSTUNREACH || e == EOPNOTSUPP ||
	       e == ENETUNREACH || e == EMFILE || e == ENFILE || e == ENOBUFS || e == ENOMEM;
}
static int per_attempt_accept_errno(int e)
{
	return e == ECONNABORTED || e == EINTR || e == EPROTO || e == ENETDOWN || e == ENOPROTOOPT || e == EHOSTDOWN || e == ENONET ||
	       e == EHOSTUNREACH || e == EOPNOTSUPP || e == ENETUNREACH;
}
static int peers_seen, seen_local;
static void count_peer(struct io_event *ev, int fd, bool is_local) { (void)ev; peers_seen++; seen_local = is_local; verif_close(fd); }
void harness_accept(void)
{
	struct io_event ev; ev.sock = 3;
	fd_state[3] = FD_OPEN;
	accept_gives_fd = nd_bool();
	accept_errno_first = nd_int();
	second_queued = nd_bool();
	family = AF_INET;
	enum eventloop_return r = accept_common(&ev, count_peer);
	if (!accept_gives_fd && transient_accept_errno(accept_errno_first)) {
		CHECK(r != EL_ABORT_LOOP, "C11.transient_accept_error_does_not_stop_daemon");
		REACH("transient_error");
	}
	if (accept_gives_fd) { CHECK(peers_seen == 1 + second_queued && r == EL_CONTINUE_LOOP, "C11.accepted_connection_is_served"); REACH("accepted"); }
	/* the listener is registered edge-triggered: an attempt that failed for reasons of its own (accept(2): aborted, interrupted,
	   or a network error already pending on the new socket) must not keep the connection queued behind it from being accepted */
	if (!accept_gives_fd && second_queued && per_attempt_accept_errno(accept_errno_first)) {
		CHECK(peers_seen == 1 && r == EL_CONTINUE_LOOP, "C11.connection_queued_behind_a_failed_attempt_is_still_accepted");
		REACH("queued_behind_failed_attempt");
	}
	CHECK(fd_state[3] == FD_OPEN, "C11.listener_stays_open");
	CHECK(accept_calls <= 4, "C11.accept_loop_terminates");
	WITNESS_END();
}

/* ================================================================== C08.origin */
void harness_origin(void)
{
	struct sockaddr_storage a;
	uint8_t *raw = (uint8_t *)&a;
	for (unsigned i = 0; i < 32; i++) raw[i] = nd_u8();
	bool r = is_localhost(&a);
	if (a.ss_family == AF_UNIX) { CHECK(r, "C08.local_socket_origin_is_local"); REACH("af_unix"); }
	if (a.ss_family == AF_INET) {
		const struct sockaddr_in *s = (const struct sockaddr_in *)&a;
		const uint8_t *b = (const uint8_t *)&s->sin_addr.s_addr;
		CHECK(r == (b[0] == 127 && b[1] == 0 && b[2] == 0 && b[3] == 1), "C08.ipv4_local_iff_loopback_address");
	}
	if (a.ss_family == AF_INET6) {
		const struct sockaddr_in6 *s = (const struct sockaddr_in6 *)&a;
		const uint8_t *b = s->sin6_addr.s6_addr;
		int zeros10 = 1; for (int i = 0; i < 10; i++) if (b[i]) zeros10 = 0;
		int v6lo = zeros10 && b[10] == 0 && b[11] == 0 && b[12] == 0 && b[13] == 0 && b[14] == 0 && b[15] == 1;
		int mapped = zeros10 && b[10] == 0xff && b[11] == 0xff && b[12] == 127 && b[13] == 0 && b[14] == 0 && b[15] == 1;
		CHECK(r == (v6lo || mapped), "C08.ipv6_local_iff_loopback_address");
		if (r) REACH("v6_local");
	}
	/* other address families cannot reach this function (the daemon only creates AF_INET6/AF_INET/AF_UNIX listeners) */
	WITNESS_END();
}
