/* Support for scenario obligations: concrete call skeletons over the real protocol code
 * (peer.c element.c fetch.c table.c router.c response.c parse.c ...) with a recording transport,
 * a timer model and JSON request builders on top of the cJSON model. */
#ifndef SCN_H
#define SCN_H
#include "verif.h"
#include <stdarg.h>
#include <stdlib.h>
#include <string.h>
#include "alloc.h"
#include "peer.h"
#include "element.h"
#include "fetch.h"
#include "table.h"
#include "router.h"
#include "parse.h"
#include "response.h"
#include "timer.h"
#include "json/cJSON.h"

extern long verif_live_blocks, verif_alloc_calls, verif_fail_at;
extern int verif_alloc_failed;
extern long model_live_nodes, model_live_strings;
extern const cJSON *model_last_printed;

/* ---- logging: empty (formatting is not the subject; peer.c's own log_peer_* are checked in C06.log_line) */
void log_err(const char *f, ...) { (void)f; }
void log_warn(const char *f, ...) { (void)f; }
void log_info(const char *f, ...) { (void)f; }
void log_peer_err(const struct peer *p, const char *fmt, ...) { (void)p; (void)fmt; }
void log_peer_info(const struct peer *p, const char *fmt, ...) { (void)p; (void)fmt; }

#ifndef SCN_REAL_TIMERS
/* ---- timer model: every cjet_timer the code creates is tracked */
#define MAXT 6
struct tmodel { struct cjet_timer *t; int created, destroyed, armed, cancelled; uint64_t ns; };
static struct tmodel TM[MAXT]; static int ntm;
static int timer_init_fail_at = -1, timer_start_fail_at = -1, timer_inits, timer_starts;
static struct tmodel *tm_of(struct cjet_timer *t) { for (int i = 0; i < ntm; i++) if (TM[i].t == t && !TM[i].destroyed) return &TM[i]; return 0; }
static int tm_start(void *this_ptr, uint64_t ns, timer_handler h, void *ctx)
{
	struct cjet_timer *t = this_ptr; struct tmodel *m = tm_of(t);
	CHECK(m != 0, "C07.timer_used_only_while_it_exists");
	t->handler = h; t->handler_context = ctx;
	if (timer_starts++ == timer_start_fail_at) return -1;
	if (m) { m->armed = 1; m->ns = ns; }
	return 0;
}
static int tm_cancel(void *this_ptr)
{
	struct cjet_timer *t = this_ptr; struct tmodel *m = tm_of(t);
	CHECK(m != 0, "C07.timer_used_only_while_it_exists");
	if (m) { m->armed = 0; m->cancelled = 1; }
	t->handler(t->handler_context, true);
	return 0;
}
int cjet_timer_init(struct cjet_timer *t, struct eventloop *loop)
{
	(void)loop;
	if (timer_inits++ == timer_init_fail_at) return -1;
	__CPROVER_assume(ntm < MAXT);
	TM[ntm].t = t; TM[ntm].created = 1; TM[ntm].destroyed = 0; TM[ntm].armed = 0; TM[ntm].cancelled = 0; ntm++;
	t->start = tm_start; t->cancel = tm_cancel;
	return 0;
}
void cjet_timer_destroy(struct cjet_timer *t)
{
	struct tmodel *m = tm_of(t);
	CHECK(m != 0, "C07.timer_destroyed_once");
	if (m) { m->destroyed = 1; m->armed = 0; }
}
static int timers_alive(void) { int n = 0; for (int i = 0; i < ntm; i++) if (!TM[i].destroyed) n++; return n; }
/* fire: what timer_read does when the descriptor becomes readable */
static void tm_fire(struct tmodel *m) { m->armed = 0; m->t->handler(m->t->handler_context, false); }

#endif /* SCN_REAL_TIMERS */

/* ---- recording transport */
#ifndef MAXLOG
#define MAXLOG 10
#endif
#define K_EVENT 1
#define K_RESPONSE 2
#define K_ROUTED 3
#define K_OTHER 4
#define K_FAILED 5
struct sent {
	const struct peer *to; int kind;
	int id_type; int id_int; double id_double; char id_str[20];   /* response / routed id, or fetch id of an event */
	char event; char path[6];                                     /* event: 'a' add 'c' change 'r' remove; path / routed method */
	int has_value; int value_int;                                 /* event or routed value / result payload */
	int is_error; int err_code; int has_result;
	int result_items;                                             /* number of members when the result is an array (get) */
	int payload_type;                                             /* JSON type of the result / error member of a response, of an event's value, of a routed value / args */
};
static struct sent LOG[MAXLOG]; static int nlog;
static int sends;                 /* number of send attempts */
static int failing_send = -1;     /* index of the send attempt that fails; -1 none */
static const struct peer *failing_peer;   /* every send to this peer fails (a peer with a full / broken send path) */
static const struct peer *dead_peer;      /* a peer whose transport has been released: any send to it is a violation */

static void cpystr(char *dst, size_t cap, const char *src)
{
	size_t i = 0;
	if (src) for (; i + 1 < cap && src[i]; i++) dst[i] = src[i];
	dst[i] = 0;
}
static void record_id(struct sent *s, const cJSON *id)
{
	if (!id) { s->id_type = 0; return; }
	s->id_type = id->type; s->id_int = id->valueint; s->id_double = id->valuedouble;
	if (id->type == cJSON_String) cpystr(s->id_str, sizeof(s->id_str), id->valuestring);
}
static int scn_send(const struct peer *p, char *rendered, size_t len)
{
	(void)rendered; (void)len;
	CHECK(p != dead_peer, "C05.no_send_through_released_transport");
	int me = sends++;
	/* one log slot per send ATTEMPT (the slot index never depends on a symbolic fault: a symbolic index would
	   defeat constant propagation); a failed attempt leaves kind = K_FAILED */
	__CPROVER_assume(me < MAXLOG);
	struct sent *s = &LOG[me];
	nlog = me + 1;
	s->to = p; s->kind = K_FAILED;
	if (me == failing_send || p == failing_peer) return -1;
	const cJSON *m = model_last_printed;
	s->to = p; s->kind = K_OTHER; s->has_value = 0; s->is_error = 0; s->has_result = 0; s->event = 0; s->path[0] = 0; s->id_str[0] = 0; s->id_type = 0;
	const cJSON *method = cJSON_GetObjectItem(m, "method");
	const cJSON *params = cJSON_GetObjectItem(m, "params");
	const cJSON *id = cJSON_GetObjectItem(m, "id");
	const cJSON *ev = params ? cJSON_GetObjectItem(params, "event") : 0;
	if (method && ev) {
		s->kind = K_EVENT; s->event = ev->valuestring[0];
		record_id(s, method);
		const cJSON *path = cJSON_GetObjectItem(params, "path");
#ifdef DBG
		CHECK(path != 0, "C01.dbg_path_item_found"); if (path) CHECK(path->valuestring && path->valuestring[0] == 'a', "C01.dbg_path_item_a");
#endif
		if (path) cpystr(s->path, sizeof(s->path), path->valuestring);
		const cJSON *v = cJSON_GetObjectItem(params, "value");
		if (v) { s->has_value = 1; s->value_int = v->valueint; s->payload_type = v->type; }
	} else if (method && id) {
		s->kind = K_ROUTED; record_id(s, id);
		cpystr(s->path, sizeof(s->path), method->valuestring);
		const cJSON *v = params ? cJSON_GetObjectItem(params, "value") : 0;
		if (v) { s->has_value = 1; s->value_int = v->valueint; s->payload_type = v->type; }
		else if (params) { s->has_value = 1; s->value_int = params->valueint; s->payload_type = params->type; }
	} else if (id) {
		s->kind = K_RESPONSE; record_id(s, id);
		const cJSON *err = cJSON_GetObjectItem(m, "error");
		const cJSON *res = cJSON_GetObjectItem(m, "result");
		if (err) s->payload_type = err->type;
		if (res) s->payload_type = res->type;
		if (err) { s->is_error = 1; const cJSON *code = cJSON_GetObjectItem(err, "code"); s->err_code = code ? code->valueint : 0; if (!code) { s->has_value = 1; s->value_int = err->valueint; } }
		if (res) { s->has_result = 1; s->has_value = 1; s->value_int = res->valueint; s->result_items = cJSON_GetArraySize(res); }
	}
	return 0;
}
static int closes_requested;
static void scn_close(struct peer *p) { (void)p; closes_requested++; }

static int count_events(const struct peer *to, char event, const char *path)
{
	int n = 0;
	for (int i = 0; i < nlog; i++)
		if (LOG[i].kind == K_EVENT && LOG[i].to == to && (event == 0 || LOG[i].event == event) && (path == 0 || LOG[i].path[0] == path[0])) n++;
	return n;
}
static int count_responses(const struct peer *to) { int n = 0; for (int i = 0; i < nlog; i++) if (LOG[i].kind == K_RESPONSE && LOG[i].to == to) n++; return n; }
static int count_kind(const struct peer *to, int kind) { int n = 0; for (int i = 0; i < nlog; i++) if (LOG[i].kind == kind && LOG[i].to == to) n++; return n; }
static struct sent *last_of(const struct peer *to, int kind) { for (int i = nlog - 1; i >= 0; i--) if (LOG[i].kind == kind && LOG[i].to == to) return &LOG[i]; return 0; }
static void reset_log(void) { nlog = 0; sends = 0; }
static int delivered(void) { int n = 0; for (int i = 0; i < nlog; i++) if (LOG[i].kind != K_FAILED) n++; return n; }

/* ---- peers */
static void mkpeer(struct peer *p, bool local)
{
	int r = init_peer(p, local, 0);
	__CPROVER_assume(r == 0);
	p->send_message = scn_send;
	p->close = scn_close;
}

/* ---- request builders (allocation failure injection is off while building: see scn_build_begin/end) */
static long saved_fail_at;
static void scn_build_begin(void) { saved_fail_at = verif_fail_at; verif_fail_at = -1; }
static void scn_build_end(void) { verif_fail_at = saved_fail_at; }
static cJSON *mkreq_id(const char *method, cJSON *id, cJSON *params)
{
	cJSON *r = cJSON_CreateObject();
	if (id) cJSON_AddItemToObject(r, "id", id);
	if (method) cJSON_AddItemToObject(r, "method", cJSON_CreateString(method));
	if (params) cJSON_AddItemToObject(r, "params", params);
	return r;
}
static cJSON *mkreq(const char *method, int id, cJSON *params) { return mkreq_id(method, cJSON_CreateNumber(id), params); }
/* NO_VALUE is a concrete marker: the shape of a request never depends on a symbolic value */
#define NO_VALUE (-1)
static cJSON *mknumber(int v)
{
	/* cJSON_CreateNumber branches on the value (saturation); build the node without control flow on symbolic data */
	cJSON *n = cJSON_CreateNumber(0);
	n->valueint = v; n->valuedouble = (double)v;
	return n;
}
static cJSON *path_params_(const char *path, int has_value, int val)
{
	cJSON *p = cJSON_CreateObject();
	cJSON_AddItemToObject(p, "path", cJSON_CreateString(path));
	if (has_value) cJSON_AddItemToObject(p, "value", mknumber(val));
	return p;
}
#define path_params(path, val) path_params_(path, (#val)[0] != 'N', val)
static cJSON *fetch_params(const char *id)
{
	cJSON *fp = cJSON_CreateObject();
	cJSON_AddItemToObject(fp, "id", cJSON_CreateString(id));
	return fp;
}
/* run one request through the real handler chain the dispatcher uses for it and deliver the response the way
   parse.c's send_response does; returns the number of responses handed to the transport */
#endif
