/* Leaf obligations over the real src/websocket.c (C12, C06, C10): frame header state machine, frame rules,
 * unmasking, server frame construction. Linked with the real compression.c (inactive: level 0),
 * utf8_checker.c, base64.c, linux/jet_endian.c, jet_string code. */
#include "verif.h"
#include <string.h>
#include <stdlib.h>
#include "memfn_stub.h"
#include "websocket.c"

/* ------------------------------------------------------------------ environment */
void log_err(const char *f, ...) { (void)f; }
void log_info(const char *f, ...) { (void)f; }
void log_warn(const char *f, ...) { (void)f; }
void cjet_get_random_bytes(void *b, size_t n) { uint8_t *p = b; for (size_t i = 0; i < n; i++) p[i] = nd_u8(); }
/* http_parser contract: consumes at most the bytes it is given; on a complete upgrade request it sets parser->upgrade.
   hp_short / hp_upgrade choose its behaviour in the header-line obligation (default: consumes everything) */
static int hp_short, hp_upgrade, hp_calls; static const char *hp_data; static size_t hp_len;
size_t http_parser_execute(http_parser *p, const http_parser_settings *s, const char *d, size_t l)
{
	(void)s; hp_calls++; hp_data = d; hp_len = l;
	if (hp_short) return l ? l - 1 : 0;
	if (hp_upgrade) p->upgrade = 1;
	return l;
}
int SHA1Reset(SHA1Context *c) { (void)c; return 0; }
int SHA1Input(SHA1Context *c, const uint8_t *d, unsigned int l) { (void)c; (void)d; (void)l; return 0; }
int SHA1Result(SHA1Context *c, uint8_t d[SHA1HashSize]) { (void)c; (void)d; return 0; }
int jet_strncasecmp(const char *a, const char *b, size_t n) { return strncasecmp(a, b, n); }

/* connection: records what the websocket writes and whether it released the connection */
static struct http_connection CONN;
static int conn_freed, http_errors;
void free_connection(void *c) { CHECK(c == &CONN && !conn_freed, "C05.connection_released_once"); conn_freed = 1; }
int send_http_error_response(struct http_connection *c) { (void)c; http_errors++; return 0; }

#define MAXW 4
struct wframe { uint8_t b0, b1; size_t hdr_len, pay_len; const uint8_t *pay; uint8_t hdr[14]; uint16_t close_code; };
static struct wframe WF[MAXW]; static int nwf; static int writev_fail;
static int ws_writev(void *t, struct socket_io_vector *iov, unsigned int count)
{
	(void)t;
	CHECK(!conn_freed, "C05.no_write_after_connection_released");
	CHECK(count == 2, "C10.frame_is_one_gathered_write");
	if (writev_fail) return -1;
	__CPROVER_assume(nwf < MAXW);
	struct wframe *f = &WF[nwf++];
	const uint8_t *h = iov[0].iov_base;
	f->hdr_len = iov[0].iov_len; f->pay_len = iov[1].iov_len; f->pay = iov[1].iov_base;
	for (size_t i = 0; i < 14; i++) f->hdr[i] = i < f->hdr_len ? h[i] : 0;
	f->b0 = f->hdr[0]; f->b1 = f->hdr[1];
	f->close_code = 0;
	if ((f->b0 & 0x0f) == 8 && f->pay_len >= 2) f->close_code = (uint16_t)((f->pay[0] << 8) | f->pay[1]);
	return 0;
}
struct rd { size_t num; int exact; enum bs_read_callback_return (*cb)(void *, uint8_t *, size_t); void *ctx; };
static struct rd RD[3]; static int nrd;
static int ws_read_exactly(void *t, size_t num, enum bs_read_callback_return (*cb)(void *, uint8_t *, size_t), void *ctx)
{ (void)t; CHECK(!conn_freed, "C05.no_read_after_connection_released"); __CPROVER_assume(nrd < 3); RD[nrd].num = num; RD[nrd].exact = 1; RD[nrd].cb = cb; RD[nrd].ctx = ctx; nrd++; return 0; }
static int ws_read_until(void *t, const char *d, enum bs_read_callback_return (*cb)(void *, uint8_t *, size_t), void *ctx)
{ (void)t; (void)d; __CPROVER_assume(nrd < 3); RD[nrd].num = 0; RD[nrd].exact = 0; RD[nrd].cb = cb; RD[nrd].ctx = ctx; nrd++; return 0; }

static int errors_reported;
static void on_err(struct websocket *s) { (void)s; errors_reported++; }

/* callbacks */
static int n_text_msg, n_bin_msg, n_text_frag, n_bin_frag, n_ping, n_pong, n_close; static int frag_last; static uint16_t close_cb_code;
static const void *cb_ptr; static size_t cb_len; static int cb_verdict;
static enum websocket_callback_return cb_text_msg(struct websocket *s, char *m, size_t l) { (void)s; n_text_msg++; cb_ptr = m; cb_len = l; return cb_verdict; }
static enum websocket_callback_return cb_bin_msg(struct websocket *s, uint8_t *m, size_t l) { (void)s; n_bin_msg++; cb_ptr = m; cb_len = l; return cb_verdict; }
static enum websocket_callback_return cb_text_frag(struct websocket *s, char *m, size_t l, bool last) { (void)s; n_text_frag++; cb_ptr = m; cb_len = l; frag_last = last; return cb_verdict; }
static enum websocket_callback_return cb_bin_frag(struct websocket *s, uint8_t *m, size_t l, bool last) { (void)s; n_bin_frag++; cb_ptr = m; cb_len = l; frag_last = last; return cb_verdict; }
static enum websocket_callback_return cb_ping(struct websocket *s, uint8_t *m, size_t l) { (void)s; (void)m; (void)l; n_ping++; return WS_OK; }
static enum websocket_callback_return cb_pong(struct websocket *s, uint8_t *m, size_t l) { (void)s; (void)m; (void)l; n_pong++; return WS_OK; }
static enum websocket_callback_return cb_close(struct websocket *s, enum ws_status_code c) { (void)s; n_close++; close_cb_code = (uint16_t)c; return WS_CLOSED; }

static struct websocket WS;
static void mk_ws(int all_callbacks)
{
	CONN.br.this_ptr = &CONN; CONN.br.writev = ws_writev; CONN.br.read_exactly = ws_read_exactly; CONN.br.read_until = ws_read_until;
	int r = websocket_init(&WS, &CONN, true, on_err, "jet");
	__CPROVER_assume(r == 0);
	WS.upgrade_complete = true;
	WS.text_message_received = cb_text_msg;
	WS.close_received = cb_close;
	WS.pong_received = cb_pong;
	if (all_callbacks) { WS.text_frame_received = cb_text_frag; WS.binary_message_received = cb_bin_msg; WS.binary_frame_received = cb_bin_frag; WS.ping_received = cb_ping; }
}

/* ================================================================== frame rules (RFC 6455 5.2, 5.4, 5.5, 7.4.1) */
#ifndef MAXPAY
#define MAXPAY 6
#endif
static int code_must_be_refused(unsigned c) { return c < 1000 || c == 1004 || c == 1005 || c == 1006 || (c >= 1015 && c <= 2999) || c >= 5000; }
static int code_must_be_accepted(unsigned c) { return (c >= 1000 && c <= 1003) || (c >= 1007 && c <= 1011) || (c >= 3000 && c <= 4999); }
static int last_close_code(void) { for (int i = nwf - 1; i >= 0; i--) if ((WF[i].b0 & 0x0f) == 8) return WF[i].close_code; return -1; }
static int closed_with(int code) { return conn_freed && errors_reported == 1 && last_close_code() == code; }

static void frame_rules(int all_callbacks)
{
	mk_ws(all_callbacks);
	unsigned fin = nd_bool(), rsv = (unsigned)nd_range(0, 7), opcode = (unsigned)nd_range(0, 15);
	unsigned fragmented = nd_bool(), frag_opcode = fragmented ? (unsigned)nd_range(1, 2) : 0;
	WS.ws_flags.fin = fin; WS.ws_flags.rsv = rsv; WS.ws_flags.opcode = opcode;
	WS.ws_flags.is_fragmented = fragmented; WS.ws_flags.frag_opcode = frag_opcode; WS.ws_flags.mask = 1;
	/* payload: exact-size heap object for small lengths; control-frame size boundary via a large abstract length */
	size_t len = nd_size();
	int big = nd_bool();
	if (big) __CPROVER_assume(len == 126 && opcode != 8); else __CPROVER_assume(len <= MAXPAY);
	uint8_t *pay = malloc(len ? len : 1);
	__CPROVER_assume(pay != 0);
	if (!big) for (size_t i = 0; i < MAXPAY; i++) if (i < len) pay[i] = nd_u8();
	cb_verdict = (int)nd_range(0, 2);
	enum websocket_callback_return r = ws_handle_frame(&WS, pay, len);
	int control = opcode >= 8;
	int reserved = (opcode >= 3 && opcode <= 7) || opcode >= 11;
	int delivered = n_text_msg + n_bin_msg + n_text_frag + n_bin_frag;
	CHECK(delivered <= 1, "C12.frame_delivered_at_most_once");
	CHECK(errors_reported <= 1, "C12.error_reported_at_most_once");
	if (r == WS_CLOSED && errors_reported == 1) CHECK(conn_freed && last_close_code() >= 1000, "C12.refusal_sends_close_frame_and_releases_connection");
	if (rsv != 0) { CHECK(r == WS_CLOSED && closed_with(1002) && delivered == 0, "C12.reserved_bits_refused_with_1002"); REACH("rsv"); }
	else if (reserved) { CHECK(r == WS_CLOSED && closed_with(1002) && delivered == 0, "C12.reserved_opcode_refused_with_1002"); }
	else if (control && !fin) { CHECK(r == WS_CLOSED && closed_with(1002), "C12.fragmented_control_frame_refused_with_1002"); }
	else if (control && len > 125) { CHECK(r == WS_CLOSED && closed_with(1002), "C12.oversized_control_frame_refused_with_1002"); REACH("big_control"); }
	else if (opcode == 9) {
		CHECK(nwf == 1 && (WF[0].b0 & 0x0f) == 0x0a && WF[0].pay == pay && WF[0].pay_len == len, "C12.ping_answered_by_pong_with_identical_payload");
		CHECK(!conn_freed && r == WS_OK, "C12.ping_keeps_connection");
		REACH("ping");
	} else if (opcode == 10) {
		CHECK(nwf == 0 && !conn_freed && n_pong == 1 && r == WS_OK, "C12.pong_accepted");
	} else if (opcode == 8) {
		unsigned code = len >= 2 ? (unsigned)((pay[0] << 8) | pay[1]) : 1000;
		CHECK(r == WS_CLOSED && conn_freed, "C12.close_frame_ends_connection");
		if (len == 1) CHECK(closed_with(1002), "C12.one_byte_close_payload_refused_with_1002");
		else if (len >= 2 && code_must_be_refused(code) && !(len > 2)) CHECK(closed_with(1002), "C12.invalid_close_code_refused_with_1002");
		else if (len == 0 || (len == 2 && code_must_be_accepted(code))) {
			CHECK(last_close_code() == 1000 && n_close == 1 && errors_reported == 0 && close_cb_code == code, "C12.valid_close_answered_with_normal_close");
			REACH("close_ok");
		}
		if (len > 2) {
			/* reason text must be valid UTF-8 (C18 gives the validator); a refusal is 1007 or 1002 */
			if (errors_reported) CHECK(last_close_code() == 1007 || last_close_code() == 1002, "C12.bad_close_payload_refused_with_1007_or_1002");
		}
	} else if (opcode == 0) {
		if (!fragmented) { CHECK(r == WS_CLOSED && closed_with(1002) && delivered == 0, "C12.continuation_without_start_refused_with_1002"); REACH("stray_continuation"); }
		else if (all_callbacks) {
			CHECK(delivered == 1 && (frag_opcode == 1 ? n_text_frag : n_bin_frag) == 1 && cb_ptr == pay && cb_len == len && frag_last == (int)fin, "C12.continuation_delivered_to_fragment_callback");
			if (fin && r == WS_OK) CHECK(!WS.ws_flags.is_fragmented && WS.ws_flags.frag_opcode == 0, "C12.final_fragment_ends_fragmentation");
			if (!fin && r == WS_OK) CHECK(WS.ws_flags.is_fragmented && WS.ws_flags.frag_opcode == frag_opcode, "C12.fragmentation_state_kept");
			REACH("continuation");
		}
	} else { /* text / binary */
		if (fragmented) { CHECK(r == WS_CLOSED && closed_with(1002) && delivered == 0, "C12.new_data_frame_inside_fragmented_message_refused_with_1002"); }
		else if (fin) {
			if (opcode == 1) { CHECK(n_text_msg == 1 && delivered == 1 && cb_ptr == pay && cb_len == len, "C12.text_message_delivered"); if (cb_verdict == WS_CLOSED) CHECK(closed_with(1007), "C12.rejected_text_refused_with_1007"); REACH("text"); }
			else if (all_callbacks) CHECK(n_bin_msg == 1 && delivered == 1 && cb_ptr == pay && cb_len == len, "C12.binary_message_delivered");
			else { CHECK(r == WS_CLOSED && closed_with(1003) && delivered == 0, "C12.unsupported_binary_refused_with_1003"); REACH("binary_unsupported"); }
		} else if (all_callbacks) {
			CHECK(delivered == 1 && (opcode == 1 ? n_text_frag : n_bin_frag) == 1 && frag_last == 0, "C12.first_fragment_delivered_to_fragment_callback");
			if (r == WS_OK) CHECK(WS.ws_flags.is_fragmented && WS.ws_flags.frag_opcode == opcode, "C12.fragmentation_started");
			REACH("first_fragment");
		}
	}
	/* with the daemon's callback set: a fragmented data message is processed or refused with a close frame */
	if (!all_callbacks && rsv == 0 && !reserved && !control && (opcode == 0 ? fragmented : (!fin && !fragmented))) {
		CHECK((r == WS_CLOSED && conn_freed && last_close_code() >= 1000) || delivered == 1, "C12.fragmented_message_processed_or_refused_with_close");
		REACH("daemon_fragment");
	}
	free(pay);
	WITNESS_END();
}
void harness_frame_rules(void) { frame_rules(1); }
/* the callback set the daemon installs (websocket_peer.c: text_message, close, pong only) */
void harness_daemon_callbacks(void) { frame_rules(0); }

/* ================================================================== close reason (C18: the validator's use on close frames)
 * A close frame with a status code and a reason: the reason - exactly the bytes behind the two status bytes, taken as a
 * complete text - is refused with 1007 iff it is not well-formed UTF-8 per the RFC 3629 reference automaton below;
 * a well-formed reason leaves the verdict to the status code rules. */
static int cr_step(int st, uint8_t b)
{
	switch (st) {
	case 0:
		if (b <= 0x7F) return 0;
		if (b >= 0xC2 && b <= 0xDF) return 1;
		if (b == 0xE0) return 4;
		if (b == 0xED) return 5;
		if (b >= 0xE1 && b <= 0xEF) return 2;
		if (b == 0xF0) return 6;
		if (b == 0xF4) return 7;
		if (b >= 0xF1 && b <= 0xF3) return 3;
		return 8;
	case 1: return (b >= 0x80 && b <= 0xBF) ? 0 : 8;
	case 2: return (b >= 0x80 && b <= 0xBF) ? 1 : 8;
	case 3: return (b >= 0x80 && b <= 0xBF) ? 2 : 8;
	case 4: return (b >= 0xA0 && b <= 0xBF) ? 1 : 8;
	case 5: return (b >= 0x80 && b <= 0x9F) ? 1 : 8;
	case 6: return (b >= 0x90 && b <= 0xBF) ? 2 : 8;
	case 7: return (b >= 0x80 && b <= 0x8F) ? 2 : 8;
	}
	return 8;
}
#ifndef MAXREASON
#define MAXREASON 6
#endif
void harness_close_reason(void)
{
	mk_ws(nd_bool());
	WS.ws_flags.fin = 1; WS.ws_flags.rsv = 0; WS.ws_flags.opcode = 8; WS.ws_flags.mask = 1;
	WS.ws_flags.is_fragmented = nd_bool(); WS.ws_flags.frag_opcode = WS.ws_flags.is_fragmented ? (unsigned)nd_range(1, 2) : 0;
	size_t rl = nd_size();
	__CPROVER_assume(rl >= 1 && rl <= MAXREASON);
	size_t len = rl + 2;
	uint8_t *pay = malloc(len);
	__CPROVER_assume(pay != 0);
	for (size_t i = 0; i < MAXREASON + 2; i++) if (i < len) pay[i] = nd_u8();
	int st = 0;
	for (size_t i = 0; i < MAXREASON; i++) if (i < rl) st = cr_step(st, pay[2 + i]);
	int wellformed = st == 0;
	unsigned code = (unsigned)((pay[0] << 8) | pay[1]);
	enum websocket_callback_return r = ws_handle_frame(&WS, pay, len);
	CHECK(r == WS_CLOSED && conn_freed, "C12.close_frame_ends_connection");
	if (!wellformed) { CHECK(closed_with(1007) && n_close == 0, "C18.malformed_close_reason_refused_with_1007"); REACH("malformed"); }
	else {
		CHECK(last_close_code() != 1007, "C18.wellformed_close_reason_not_refused_as_bad_text");
		if (code_must_be_refused(code)) CHECK(closed_with(1002) && n_close == 0, "C12.invalid_close_code_refused_with_1002");
		else if (code_must_be_accepted(code)) {
			CHECK(last_close_code() == 1000 && n_close == 1 && errors_reported == 0 && close_cb_code == code, "C12.valid_close_answered_with_normal_close");
			REACH("wellformed_accepted");
		}
	}
	free(pay);
	WITNESS_END();
}

/* ================================================================== header state machine (RFC 6455 5.2) */
void harness_header_machine(void)
{
	mk_ws(1);
	uint8_t b0 = nd_u8(), b1 = nd_u8();
	enum bs_read_callback_return r = ws_get_header(&WS, &b0, 1);
	CHECK(r == BS_OK && nrd == 1 && RD[0].exact && RD[0].num == 1 && RD[0].cb == ws_get_first_length && RD[0].ctx == &WS, "C12.header_byte_then_length_byte");
	CHECK(WS.ws_flags.fin == (b0 >> 7) && WS.ws_flags.rsv == ((b0 >> 4) & 7) && WS.ws_flags.opcode == (b0 & 15), "C12.first_header_byte_decoded");
	nrd = 0;
	WS.length = 0xdeadbeef;
	r = ws_get_first_length(&WS, &b1, 1);
	unsigned l7 = b1 & 0x7f, masked = b1 >> 7;
	CHECK(WS.ws_flags.mask == masked, "C12.mask_bit_decoded");
	if (l7 == 126) { CHECK(r == BS_OK && nrd == 1 && RD[0].num == 2 && RD[0].cb == ws_get_length16, "C12.length_126_reads_16_bit_length"); REACH("len16"); }
	else if (l7 == 127) { CHECK(r == BS_OK && nrd == 1 && RD[0].num == 8 && RD[0].cb == ws_get_length64, "C12.length_127_reads_64_bit_length"); REACH("len64"); }
	else {
		CHECK(WS.length == l7, "C12.short_length_decoded");
		if (masked) { CHECK(r == BS_OK && nrd == 1 && RD[0].num == 4 && RD[0].cb == ws_get_mask && !conn_freed, "C12.masked_frame_reads_mask"); REACH("masked_short"); }
		else { CHECK(conn_freed ? (r == BS_CLOSED && last_close_code() == 1002) : (nrd == 1 && RD[0].num == l7 && RD[0].cb == ws_get_payload), "C12.unmasked_client_frame_refused_at_the_latest_with_payload"); }
	}
	WITNESS_END();
}
void harness_ext_length(void)
{
	mk_ws(1);
	uint8_t raw[8]; for (int i = 0; i < 8; i++) raw[i] = nd_u8();
	int wide = nd_bool();
	WS.ws_flags.mask = 1;
	enum bs_read_callback_return r = wide ? ws_get_length64(&WS, raw, 8) : ws_get_length16(&WS, raw, 2);
	uint64_t want = 0;
	for (int i = 0; i < (wide ? 8 : 2); i++) want = (want << 8) | raw[i];
	CHECK(WS.length == want, "C12.extended_length_is_big_endian");
	CHECK(r == BS_OK && nrd == 1 && RD[0].num == 4 && RD[0].cb == ws_get_mask, "C12.masked_frame_reads_mask");
	/* mask, then the payload of exactly the announced length */
	nrd = 0;
	uint8_t mk[4]; for (int i = 0; i < 4; i++) mk[i] = nd_u8();
	r = ws_get_mask(&WS, mk, 4);
	CHECK(WS.mask[0] == mk[0] && WS.mask[1] == mk[1] && WS.mask[2] == mk[2] && WS.mask[3] == mk[3], "C12.mask_stored");
	if (want > 0) { CHECK(r == BS_OK && nrd == 1 && RD[0].num == want && RD[0].cb == ws_get_payload, "C12.payload_read_with_announced_length"); REACH("payload_requested"); }
	WITNESS_END();
}
/* connection end in every header phase (len == 0 from the reader = FIN): close 1001 and release */
void harness_header_eof(void)
{
	mk_ws(1);
	int phase = (int)nd_range(0, 5);
	WS.length = phase == 5 ? 3 : 0;
	enum bs_read_callback_return r =
		phase == 0 ? ws_get_header(&WS, 0, 0) : phase == 1 ? ws_get_first_length(&WS, 0, 0) : phase == 2 ? ws_get_length16(&WS, 0, 0) :
		phase == 3 ? ws_get_length64(&WS, 0, 0) : phase == 4 ? ws_get_mask(&WS, 0, 0) : ws_get_payload(&WS, 0, 0);
	/* (today a close frame 1001 is written first; whether a frame is still written to a stream that ended is not the
	   property's subject - if one is written it is a single close frame with a valid code) */
	CHECK(r == BS_CLOSED && conn_freed && errors_reported == 1 && nrd == 0 && nwf <= 1 && (nwf == 0 || last_close_code() >= 1000), "C05.eof_in_any_frame_phase_releases_the_connection_once");
	WITNESS_END();
}
/* C13 / C05 - one header line of the HTTP phase handed to websocket_read_header_line: a line the parser rejects is
 * answered with one HTTP error and the connection is released once; end of stream releases it without a response; a
 * completed upgrade switches to frame reading; anything else asks for the next line. No websocket frame is ever
 * written in this phase. */
void harness_header_line(void)
{
	mk_ws(1);
	WS.upgrade_complete = false;
	size_t len = nd_size(); __CPROVER_assume(len <= 4);
	uint8_t *line = malloc(len ? len : 1);
	__CPROVER_assume(line != 0);
	hp_short = nd_bool(); hp_upgrade = nd_bool();
	enum bs_read_callback_return r = websocket_read_header_line(&WS, line, len);
	CHECK(nwf == 0, "C13.no_websocket_frame_before_the_upgrade");
	if (len == 0) {
		CHECK(r == BS_CLOSED && conn_freed && errors_reported == 1 && http_errors == 0 && nrd == 0 && hp_calls == 0, "C13.end_of_stream_in_the_header_phase_releases_the_connection_once");
		REACH("eof");
	} else if (hp_short) {
		CHECK(hp_calls == 1 && hp_data == (const char *)line && hp_len == len, "C13.parser_sees_exactly_the_line");
		CHECK(r == BS_CLOSED && http_errors <= 1 && (http_errors == 0 || CONN.status_code >= 400), "C13.malformed_header_line_closed_and_answered_with_an_error_status_if_at_all");
		CHECK(conn_freed && errors_reported == 1 && nrd == 0, "C13.malformed_header_line_releases_the_connection_once_and_reads_no_more");
		REACH("bad_line");
	} else if (hp_upgrade) {
		CHECK(r == BS_OK && !conn_freed && WS.upgrade_complete && nrd == 1 && RD[0].exact && RD[0].num == 1 && RD[0].cb == ws_get_header && RD[0].ctx == &WS, "C12.completed_upgrade_switches_to_frame_reading");
		REACH("upgraded");
	} else {
		CHECK(r == BS_OK && !conn_freed && !WS.upgrade_complete && http_errors == 0 && nrd == 1 && !RD[0].exact && RD[0].cb == websocket_read_header_line && RD[0].ctx == &WS, "C13.next_header_line_requested");
		REACH("next_line");
	}
	free(line);
	WITNESS_END();
}
/* payload step: unmasked client frame refused; masked payload unmasked then dispatched; next header requested */
void harness_payload_step(void)
{
	mk_ws(1);
	WS.ws_flags.mask = nd_bool(); WS.ws_flags.fin = 1; WS.ws_flags.rsv = 0; WS.ws_flags.opcode = 1;
	uint8_t pay[3]; uint8_t orig[3];
	for (int i = 0; i < 3; i++) { pay[i] = nd_u8(); orig[i] = pay[i]; WS.mask[i] = nd_u8(); }
	WS.mask[3] = nd_u8(); WS.length = 3;
	cb_verdict = WS_OK;
	enum bs_read_callback_return r = ws_get_payload(&WS, pay, 3);
	if (!WS.ws_flags.mask) { CHECK(r == BS_CLOSED && closed_with(1002) && n_text_msg == 0, "C12.unmasked_client_frame_refused_with_1002"); REACH("unmasked"); }
	else {
		CHECK(n_text_msg == 1 && pay[0] == (orig[0] ^ WS.mask[0]) && pay[1] == (orig[1] ^ WS.mask[1]) && pay[2] == (orig[2] ^ WS.mask[2]), "C12.payload_unmasked_before_delivery");
		CHECK(r == BS_OK && nrd == 1 && RD[0].num == 1 && RD[0].cb == ws_get_header, "C12.next_frame_header_requested");
	}
	WITNESS_END();
}

/* a ping whose pong cannot be written: the error is reported once, the connection is released once */
void harness_ping_write_fails(void)
{
	mk_ws(1);
	WS.ws_flags.mask = 1; WS.ws_flags.fin = 1; WS.ws_flags.rsv = 0; WS.ws_flags.opcode = 9;
	uint8_t pay[2] = {1, 2}; WS.length = 2;
	for (int i = 0; i < 4; i++) WS.mask[i] = nd_u8();
	writev_fail = 1;
	enum bs_read_callback_return r = ws_get_payload(&WS, pay, 2);
	CHECK(r == BS_CLOSED && conn_freed, "C12.unanswerable_ping_ends_connection");
	CHECK(errors_reported == 1, "C05.error_reported_exactly_once");
	WITNESS_END();
}

/* ================================================================== unmasking, all alignments */
#ifndef ULEN
#define ULEN 19
#endif
void harness_unmask(void)
{
#ifdef AOFF
	size_t off = AOFF;
#else
	size_t off = nd_size(); __CPROVER_assume(off < 8);
#endif
	size_t n = nd_size(); __CPROVER_assume(n <= ULEN);
	uint8_t *block = malloc(off + n);          /* exact size: writes outside the payload are out of bounds */
	__CPROVER_assume(block != 0);
	__CPROVER_assume(((uintptr_t)block) % 8 == 0);
	uint8_t *p = block + off;
	uint8_t mask[4];
	for (int i = 0; i < 4; i++) mask[i] = nd_u8();
	/* the payload is whatever the fresh heap object holds (arbitrary); one arbitrary index is observed */
	size_t k = nd_size(); __CPROVER_assume(k < n);
	uint8_t before = p[k];
	unmask_payload(p, n, mask);
	CHECK(p[k] == (uint8_t)(before ^ mask[k % 4]), "C12.unmask_is_xor_with_mask_octet_i_mod_4");
	if (n >= 15) REACH("word_path");
	free(block);
	WITNESS_END();
}

/* ================================================================== server frame construction (RFC 6455 5.1, 5.2) */
void harness_send_frame(void)
{
	mk_ws(1);
	size_t len = nd_size(); __CPROVER_assume(len <= 0xffffffffu);
	unsigned type = (unsigned)nd_range(0, 3) == 0 ? 1 : (nd_bool() ? 2 : (nd_bool() ? 9 : 10));
	static uint8_t dummy[1];
	int r = send_frame(&WS, dummy, len, type);
	CHECK(r == 0 && nwf == 1, "C10.one_frame_one_write");
	CHECK(WF[0].b0 == (0x80 | type), "C12.server_frame_fin_set_rsv_clear_opcode");
	CHECK((WF[0].b1 & 0x80) == 0, "C12.server_frames_are_unmasked");
	CHECK(WF[0].pay == dummy && WF[0].pay_len == len, "C12.payload_unchanged_and_complete");
	if (len < 126) CHECK(WF[0].hdr_len == 2 && WF[0].b1 == len, "C12.length_minimally_encoded");
	else if (len < 65536) { CHECK(WF[0].hdr_len == 4 && WF[0].b1 == 126 && (((size_t)WF[0].hdr[2] << 8) | WF[0].hdr[3]) == len, "C12.length_minimally_encoded"); REACH("len16"); }
	else {
		uint64_t v = 0; for (int i = 0; i < 8; i++) v = (v << 8) | WF[0].hdr[2 + i];
		CHECK(WF[0].hdr_len == 10 && WF[0].b1 == 127 && v == len, "C12.length_minimally_encoded"); REACH("len64");
	}
	WITNESS_END();
}
/* C19 / C10 - a data frame sent with permessage-deflate accepted: deflate is a contract stub (consumes <= avail_in,
 * produces <= avail_out, writes what fits; any return code). Whatever it does, exactly one complete frame is written:
 * either compressed (RSV1, payload inside the 2*len output buffer) or - when the compressed form is not available -
 * the original payload uncompressed (RFC 7692 6: every message MAY be sent uncompressed). */
int deflate(z_streamp strm, int flush)
{
	(void)flush;
	unsigned in = nd_uint(), out = nd_uint();
	__CPROVER_assume(in <= strm->avail_in && out <= strm->avail_out);
	for (unsigned i = 0; i < 8; i++) if (i < out) strm->next_out[i] = nd_u8();
	strm->next_in += in; strm->avail_in -= in; strm->next_out += out; strm->avail_out -= out;
	return (int)nd_range(-5, 1);
}
int deflateEnd(z_streamp strm) { (void)strm; return 0; }
int deflateReset(z_streamp strm) { (void)strm; return 0; }
void harness_send_frame_compressed(void)
{
	mk_ws(1);
	static z_stream defl; static z_stream *dp = &defl;
	WS.extension_compression.accepted = true;
	WS.extension_compression.compression_level = 2;
	WS.extension_compression.strm_comp = &dp;
	size_t len = nd_size(); __CPROVER_assume(len >= 1 && len <= 4);
	uint8_t *msg = malloc(len);
	__CPROVER_assume(msg != 0);
	unsigned type = nd_bool() ? 1 : 2;
	int r = send_frame(&WS, msg, len, type);
	CHECK(r == 0 && nwf == 1, "C10.one_frame_one_write");
	CHECK((WF[0].b0 & 0x8f) == (0x80 | type) && (WF[0].b0 & 0x30) == 0 && (WF[0].b1 & 0x80) == 0, "C12.server_frame_fin_set_rsv_clear_opcode");
	CHECK(WF[0].hdr_len == 2 && WF[0].b1 == WF[0].pay_len, "C12.length_minimally_encoded");
	if (WF[0].b0 & 0x40) {
		CHECK(WF[0].pay != msg && WF[0].pay_len + 4 <= 2 * len, "C19.compressed_payload_lies_inside_its_buffer");
		REACH("sent_compressed");
	} else {
		CHECK(WF[0].pay == msg && WF[0].pay_len == len, "C19.message_without_compressed_form_is_sent_unchanged_and_uncompressed");
		REACH("sent_uncompressed");
	}
	free(msg);
	WITNESS_END();
}
void harness_close_frame(void)
{
	mk_ws(1);
	unsigned code = (unsigned)nd_range(1000, 4999);
	websocket_close(&WS, (enum ws_status_code)code);
	CHECK(nwf == 1 && WF[0].b0 == 0x88 && WF[0].b1 == 2 && WF[0].close_code == code && conn_freed, "C12.close_sends_status_then_releases_connection");
	WITNESS_END();
}
