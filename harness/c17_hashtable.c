/* C17 - hopscotch hash table (real macros of src/hashtable.h), one inductive step from an arbitrary table
 * that satisfies the representation invariant.
 *   -DKT=0 uint32 keys, 1 uint64 keys, 2 string keys      -DORDER=2|3      -DMODE=0 put, 1 get, 2 remove
 * The hash function is abstracted to an arbitrary function of the key (home buckets are solver variables):
 * that covers every collision pattern incl. wrap-around; C17.hash_range shows the real hashes stay in range. */
#include "verif.h"
#include <stdlib.h>
#include <string.h>

#define NKEYS 6                     /* key universe, larger than the table at order 2 */
static uint32_t H[NKEYS];           /* abstract hash: home bucket of every key of the universe */

#if KT == 2
/* single-letter strings; the real string-hash loop reduces "x" to its character code before calling hs_hash32 */
static const char KS_STORED[NKEYS][2] = {"a", "b", "c", "d", "e", "f"};
static const char KS_PROBE[NKEYS][2] = {"a", "b", "c", "d", "e", "f"};   /* equal content, different objects */
static inline uint32_t abs_hash32(uint32_t key, unsigned int order) { (void)order; return H[(key - 'a') % NKEYS]; }
#else
static inline uint32_t abs_hash32(uint32_t key, unsigned int order) { (void)order; return H[(key - 1) % NKEYS]; }
#endif
static inline uint32_t abs_hash64(uint64_t key, unsigned int order) { (void)order; return H[((uint32_t)key - 1) % NKEYS]; }

#define hs_hash32 real_hs_hash32
#define hs_hash6432shift real_hs_hash6432shift
#include "hashtable.h"
#undef hs_hash32
#undef hs_hash6432shift
#define hs_hash32 abs_hash32
#define hs_hash6432shift abs_hash64

#if KT == 0
DECLARE_HASHTABLE_UINT32(T, ORDER, 1)
typedef struct hashtable_uint32_t slot_t;
typedef uint32_t key_t_;
#define KEY_STORED(i) ((uint32_t)((i) + 1))
#define KEY_PROBE(i) ((uint32_t)((i) + 1))
#define KEQ(a, b) ((a) == (b))
#elif KT == 1
DECLARE_HASHTABLE_UINT64(T, ORDER, 1)
typedef struct hashtable_uint64_t slot_t;
typedef uint64_t key_t_;
#define KEY_STORED(i) ((((uint64_t)((i) + 1)) << 40) | (uint64_t)((i) + 1))
#define KEY_PROBE(i) KEY_STORED(i)
#define KEQ(a, b) ((a) == (b))
#else
DECLARE_HASHTABLE_STRING(T, ORDER, 1)
typedef struct hashtable_string slot_t;
typedef const char *key_t_;
#define KEY_STORED(i) (KS_STORED[i])
#define KEY_PROBE(i) (KS_PROBE[i])
#define KEQ(a, b) ((a)[0] == (b)[0])
#endif

#define SIZE (1u << ORDER)
#define KINVALID ((key_t_)HASHTABLE_INVALIDENTRY)

static slot_t TABLE[SIZE], PRE[SIZE];
static int KIDX[SIZE];              /* ghost: universe index of the key in each slot, -1 = free */
static char VALS[NKEYS + 2];        /* values are pointers into this array */

void *cjet_malloc(size_t s) { (void)s; return 0; }
void cjet_free(void *p) { (void)p; }

static int slot_kidx(const slot_t *t, uint32_t s)
{
	if (t[s].key == KINVALID) return -1;
	for (int i = 0; i < NKEYS; i++) if (KEQ(t[s].key, KEY_STORED(i))) return i;
	return -2;
}

/* representation invariant */
static int inv(const slot_t *t)
{
	for (uint32_t h = 0; h < SIZE; h++) {
		if ((t[h].hop_info >> add_range_T) != 0) return 0;              /* insertion reach is add_range */
		for (uint32_t d = 0; d < add_range_T; d++) {
			if (t[h].hop_info & (1u << d)) {
				int ki = slot_kidx(t, (h + d) & (SIZE - 1));
				if (ki < 0) return 0;                                   /* bit points to a live slot ... */
				if (H[ki] != h) return 0;                               /* ... whose home is this bucket */
			}
		}
	}
	for (uint32_t s = 0; s < SIZE; s++) {
		int ki = slot_kidx(t, s);
		if (ki == -2) return 0;
		if (ki == -1) { if (t[s].value.vals[0] != 0) return 0; continue; } /* free slots are zeroed */
		uint32_t h = H[ki];
		uint32_t d = (s - h) & (SIZE - 1);
		if (d >= add_range_T || !(t[h].hop_info & (1u << d))) return 0;    /* every live slot is announced */
		for (uint32_t s2 = 0; s2 < s; s2++) if (slot_kidx(t, s2) == ki) return 0; /* keys unique */
	}
	return 1;
}

static int alookup(const slot_t *t, int ki, void **v)
{
	for (uint32_t s = 0; s < SIZE; s++) if (slot_kidx(t, s) == ki) { *v = t[s].value.vals[0]; return 1; }
	return 0;
}

void harness(void)
{
	for (int i = 0; i < NKEYS; i++) { H[i] = nd_u32(); __CPROVER_assume(H[i] < SIZE); }
	for (uint32_t s = 0; s < SIZE; s++) {
		int ki = (int)nd_range(-1, NKEYS - 1);
		KIDX[s] = ki;
		TABLE[s].hop_info = nd_u32();
		TABLE[s].key = ki < 0 ? KINVALID : KEY_STORED(ki);
		int vi = (int)nd_range(0, NKEYS + 1);
		TABLE[s].value.vals[0] = ki < 0 ? 0 : &VALS[vi];
	}
	__CPROVER_assume(inv(TABLE));
	for (uint32_t s = 0; s < SIZE; s++) PRE[s] = TABLE[s];
	int k = (int)nd_range(0, NKEYS - 1);      /* operated key */
	int q = (int)nd_range(0, NKEYS - 1);      /* arbitrary observed key */
	void *pv = 0, *qv = 0;
	int phas = alookup(PRE, k, &pv), qhas = alookup(PRE, q, &qv);
	struct value_T v, out;
	v.vals[0] = &VALS[nd_range(0, NKEYS + 1)];
	out.vals[0] = (void *)&H[0];
#if MODE == 0
	int r = HASHTABLE_PUT(T, TABLE, KEY_PROBE(k), v, &out);
	CHECK(inv(TABLE), "C17.put_preserves_invariant");
	void *nv = 0; int nhas = alookup(TABLE, q, &nv);
	if (phas) { CHECK(r == HASHTABLE_SUCCESS, "C17.put_existing_key_succeeds"); CHECK(out.vals[0] == pv, "C17.put_returns_previous_value"); REACH("put_overwrite"); }
	else CHECK(out.vals[0] == 0, "C17.put_no_previous_value_for_new_key");
	if (r == HASHTABLE_SUCCESS) {
		if (q == k) CHECK(nhas && nv == v.vals[0], "C17.put_then_get_returns_new_value");
		else CHECK(nhas == qhas && nv == qv, "C17.put_leaves_other_keys_alone");
		if (!phas) REACH("put_insert");
	} else {
		CHECK(r == HASHTABLE_FULL, "C17.put_result_code");
		CHECK(nhas == qhas && nv == qv, "C17.refused_put_changes_nothing");
		int free_in_window = 0;
		for (uint32_t d = 0; d < add_range_T; d++) if (slot_kidx(PRE, (H[k] + d) & (SIZE - 1)) == -1) free_in_window = 1;
		CHECK(!free_in_window, "C17.put_refused_only_when_window_full");
		REACH("put_full");
	}
#elif MODE == 1
	int r = HASHTABLE_GET(T, TABLE, KEY_PROBE(k), &out);
	if (phas) { CHECK(r == HASHTABLE_SUCCESS && out.vals[0] == pv, "C17.get_returns_stored_value"); REACH("get_hit"); }
	else { CHECK(r == HASHTABLE_INVALIDENTRY, "C17.get_absent_key_reports_nothing"); REACH("get_miss"); }
	for (uint32_t s = 0; s < SIZE; s++)
		CHECK(PRE[s].key == TABLE[s].key && PRE[s].hop_info == TABLE[s].hop_info && PRE[s].value.vals[0] == TABLE[s].value.vals[0], "C17.get_does_not_modify");
#else
	int r = HASHTABLE_REMOVE(T, TABLE, KEY_PROBE(k), &out);
	CHECK(inv(TABLE), "C17.remove_preserves_invariant");
	void *nv = 0; int nhas = alookup(TABLE, q, &nv);
	if (phas) { CHECK(r == HASHTABLE_SUCCESS && out.vals[0] == pv, "C17.remove_returns_stored_value"); REACH("remove_hit"); }
	else { CHECK(r == HASHTABLE_INVALIDENTRY, "C17.remove_absent_key_reports_nothing"); REACH("remove_miss"); }
	if (q == k) CHECK(!nhas, "C17.removed_key_is_gone");
	else CHECK(nhas == qhas && nv == qv, "C17.remove_leaves_other_keys_alone");
#endif
	WITNESS_END();
}

/* the real hash functions stay inside the table for every key and order 2..13 (licenses the abstraction) */
#undef hs_hash32
#undef hs_hash6432shift
void harness_hash_range(void)
{
	unsigned order = (unsigned)nd_range(2, 13);
	uint32_t k32 = nd_u32(); uint64_t k64 = nd_u64();
	CHECK(real_hs_hash32(k32, order) < (1u << order), "C17.hash32_in_range");
	CHECK(real_hs_hash6432shift(k64, order) < (1u << order), "C17.hash64_in_range");
	WITNESS_END();
}
