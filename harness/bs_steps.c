/* Inductive-step obligations over the real src/buffered_socket.c (C09, C10, C05, C11).
 * The kernel is a symbolic stub; streams are checked with the "tracked byte" technique: one
 * nondeterministically chosen stream position is remembered, so a per-position claim proved for an arbitrary
 * position holds for every position. */
#include "verif.h"
#include <errno.h>
#include <string.h>
#include <stdlib.h>
#include "memfn_stub.h"
#define memcpy verif_memcpy
#define memmove verif_memmove
#include "buffered_socket.c"
#undef memcpy
#undef memmove

#define W CONFIG_MAX_WRITE_BUFFER_SIZE
#define M CONFIG_MAX_MESSAGE_SIZE

/* ------------------------------------------------------------------ environment */
void log_err(const char *f, ...) { (void)f; }
void *cjet_malloc(size_t s) { return malloc(s); }
void cjet_free(void *p) { free(p); }
static int sock_errno;
enum cjet_system_error get_socket_error(void) { return sock_errno; }
const char *get_socket_error_msg(enum cjet_system_error err) { (void)err; return ""; }
static int closes;
int socket_close(socket_type sock) { (void)sock; closes++; return 0; }
/* memmem contract (glibc): first occurrence or NULL */
void *jet_memmem(const void *h, size_t hl, const void *n, size_t nl)
{
	const uint8_t *hh = h; const uint8_t *nn = n;
	if (nl == 0) return (void *)h;
	for (size_t i = 0; i + nl <= hl; i++) {
		size_t j = 0;
		while (j < nl && hh[i + j] == nn[j]) j++;
		if (j == nl) return (void *)(hh + i);
	}
	return 0;
}

/* kernel, write side: accepts any prefix >= 1 byte of the gathered bytes, would-block, or fails hard */
static size_t kpos, TRACK; static uint8_t kbyte; static int kcalls, khard;
cjet_ssize_t socket_writev_with_prefix(socket_type sock, void *buf, size_t len, struct socket_io_vector *io_vec, unsigned int count)
{
	(void)sock;
	size_t total = len;
	for (unsigned int i = 0; i < count; i++) total += io_vec[i].iov_len;
	if (total == 0) return 0;
	kcalls++;
	int mode = (int)nd_range(0, 2);
	if (mode == 0) { sock_errno = EAGAIN; return -1; }
	if (mode == 1) { sock_errno = EPIPE; khard = 1; return -1; }
	size_t acc = nd_size();
	__CPROVER_assume(acc >= 1 && acc <= total);
	if (TRACK >= kpos && TRACK < kpos + acc) {
		size_t off = TRACK - kpos;
		if (off < len) kbyte = ((uint8_t *)buf)[off];
		else {
			off -= len;
			unsigned int i = 0;
			while (i < count && off >= io_vec[i].iov_len) { off -= io_vec[i].iov_len; i++; }
			kbyte = ((const uint8_t *)io_vec[i].iov_base)[off];
		}
	}
	kpos += acc;
	return (cjet_ssize_t)acc;
}

/* kernel, read side: delivers 1..count arbitrary bytes, FIN, would-block or a hard error.
   rpos = stream position of the next byte the kernel delivers; the byte at stream position RTRACK is remembered. */
static size_t rpos, RTRACK; static uint8_t rbyte; static int rbyte_known; static int reads;
static int read_forbidden;
static int last_read_mode = -1;   /* what the kernel answered to the latest read: 0 would-block, 1 hard error, 2 FIN, 3 data */
cjet_ssize_t socket_read(socket_type sock, void *buf, size_t count)
{
	(void)sock;
	CHECK(!read_forbidden, "C05.no_read_after_release");
	CHECK(count >= 1, "C09.read_request_nonempty");
	reads++;
	int mode = (int)nd_range(0, 3);
	last_read_mode = mode;
	if (mode == 0) { sock_errno = EAGAIN; return -1; }
	if (mode == 1) { sock_errno = ECONNRESET; return -1; }
	if (mode == 2) return 0;
	size_t n = nd_size();
	__CPROVER_assume(n >= 1 && n <= count);
	uint8_t *b = buf;
	for (size_t i = 0; i < n; i++) {
		uint8_t v = nd_u8();
		b[i] = v;
		if (rpos + i == RTRACK) { rbyte = v; rbyte_known = 1; }
	}
	rpos += n;
	return (cjet_ssize_t)n;
}

static struct buffered_socket BS;

/* ================================================================== C10.writev_step */
#ifndef L0
#define L0 2
#endif
#ifndef L1
#define L1 2
#endif
static int error_calls;
static void on_error(void *ctx) { (void)ctx; error_calls++; }

static void any_pending(struct buffered_socket *bs, size_t *pend)
{
	*pend = nd_size();
	__CPROVER_assume(*pend <= W);
	bs->to_write = *pend;
	for (size_t i = 0; i < W; i++) bs->write_buffer[i] = nd_u8();
	bs->error = on_error;
	bs->ev.sock = 5;
}

void harness_writev(void)
{
	struct buffered_socket *bs = &BS;
	size_t pend; any_pending(bs, &pend);
	uint8_t f0[L0], f1[L1]; size_t l0 = nd_size(), l1 = nd_size();
	__CPROVER_assume(l0 <= L0 && l1 <= L1);
	for (int i = 0; i < L0; i++) f0[i] = nd_u8();
	for (int i = 0; i < L1; i++) f1[i] = nd_u8();
	TRACK = nd_size(); __CPROVER_assume(TRACK < pend + l0 + l1);
	uint8_t want = TRACK < pend ? bs->write_buffer[TRACK] : (TRACK < pend + l0 ? f0[TRACK - pend] : f1[TRACK - pend - l0]);
	struct socket_io_vector iov[2] = {{f0, l0}, {f1, l1}};
	int r = buffered_socket_writev(bs, iov, 2);
	CHECK(bs->to_write <= W, "C10.pending_count_in_bounds");
	CHECK(error_calls == 0, "C11.failed_send_does_not_close_receiver");
	if (r == 0) {
		CHECK(kpos + bs->to_write == pend + l0 + l1, "C10.accepted_frame_fully_sent_or_queued");
		uint8_t got = TRACK < kpos ? kbyte : bs->write_buffer[TRACK - kpos];
		CHECK(got == want, "C10.stream_is_old_pending_then_frame");
		if (bs->to_write > 0 && kpos > 0) REACH("partial_then_queued");
	} else if (!khard) {
		/* refused without a socket error: none of the new frame's bytes may have been sent or queued */
		CHECK(kpos + bs->to_write <= pend, "C10.refused_frame_left_no_bytes");
		if (TRACK < pend) {
			/* and what was pending before is still the stream */
			uint8_t got = TRACK < kpos ? kbyte : bs->write_buffer[TRACK - kpos];
			if (TRACK < kpos + bs->to_write) CHECK(got == want, "C10.refusal_keeps_pending_bytes");
		}
		REACH("refused");
	} else {
		REACH("hard_error");
	}
	WITNESS_END();
}

/* ================================================================== C10.writev3_step : a frame gathered from three chunks of different lengths
 * (the websocket upgrade answer is gathered from five to seven) */
#ifndef L2
#define L2 1
#endif
void harness_writev3(void)
{
	struct buffered_socket *bs = &BS;
	size_t pend; any_pending(bs, &pend);
	uint8_t f0[L0], f1[L1], f2[L2]; size_t l0 = nd_size(), l1 = nd_size(), l2 = nd_size();
	__CPROVER_assume(l0 <= L0 && l1 <= L1 && l2 <= L2);
	for (int i = 0; i < L0; i++) f0[i] = nd_u8();
	for (int i = 0; i < L1; i++) f1[i] = nd_u8();
	for (int i = 0; i < L2; i++) f2[i] = nd_u8();
	size_t total = l0 + l1 + l2;
	TRACK = nd_size(); __CPROVER_assume(TRACK < pend + total);
	uint8_t want = TRACK < pend ? bs->write_buffer[TRACK] : (TRACK < pend + l0 ? f0[TRACK - pend] : (TRACK < pend + l0 + l1 ? f1[TRACK - pend - l0] : f2[TRACK - pend - l0 - l1]));
	struct socket_io_vector iov[3] = {{f0, l0}, {f1, l1}, {f2, l2}};
	int r = buffered_socket_writev(bs, iov, 3);
	CHECK(bs->to_write <= W, "C10.pending_count_in_bounds");
	if (r == 0) {
		CHECK(kpos + bs->to_write == pend + total, "C10.accepted_frame_fully_sent_or_queued");
		uint8_t got = TRACK < kpos ? kbyte : bs->write_buffer[TRACK - kpos];
		CHECK(got == want, "C10.stream_is_old_pending_then_frame");
		if (bs->to_write > 0 && kpos > pend + l0) REACH("short_write_ends_behind_the_first_chunk");
	} else if (!khard) {
		CHECK(kpos + bs->to_write <= pend, "C10.refused_frame_left_no_bytes");
		REACH("refused");
	}
	WITNESS_END();
}

/* ================================================================== C10.flush_step : writability event */
void harness_flush(void)
{
	struct buffered_socket *bs = &BS;
	size_t pend; any_pending(bs, &pend);
	TRACK = nd_size(); __CPROVER_assume(TRACK < pend);
	uint8_t want = bs->write_buffer[TRACK];
	enum eventloop_return r = write_function(&bs->ev);
	CHECK(r == EL_CONTINUE_LOOP, "C10.flush_keeps_loop_running");
	CHECK(bs->to_write <= W, "C10.pending_count_in_bounds");
	if (!khard) {
		CHECK(kpos + bs->to_write == pend, "C10.flush_conserves_bytes");
		uint8_t got = TRACK < kpos ? kbyte : bs->write_buffer[TRACK - kpos];
		CHECK(got == want, "C10.flush_keeps_order");
		CHECK(error_calls == 0, "C10.flush_no_error_without_socket_error");
		if (bs->to_write > 0) REACH("flush_would_block_with_rest");
	} else {
		CHECK(error_calls == 1, "C10.flush_hard_error_reported_once");
	}
	/* no spinning: every kernel call either consumed >= 1 byte or ended the flush */
	CHECK((size_t)kcalls <= pend + 1, "C10.flush_no_spin");
	WITNESS_END();
}

/* ================================================================== C09 reader steps */
static size_t consumed;       /* stream position of *read_ptr */
static void any_read_state(struct buffered_socket *bs)
{
	size_t a = nd_size(), b = nd_size();
	__CPROVER_assume(a <= b && b <= M);
	bs->read_ptr = bs->read_buffer + a;
	bs->write_ptr = bs->read_buffer + b;
	for (size_t i = 0; i < M; i++) bs->read_buffer[i] = nd_u8();
	bs->ev.sock = 5;
	consumed = 0;
	rpos = b - a;                /* the kernel continues after the unread bytes */
}
static int read_inv(const struct buffered_socket *bs)
{
	return bs->read_buffer <= bs->read_ptr && bs->read_ptr <= bs->write_ptr && bs->write_ptr <= bs->read_buffer + M;
}

void harness_read_exactly(void)
{
	struct buffered_socket *bs = &BS;
	any_read_state(bs);
	size_t unread0 = unread_bytes(bs);
	size_t count = nd_size(); __CPROVER_assume(count >= 1 && count <= M + 2);
	RTRACK = nd_size(); __CPROVER_assume(RTRACK < M + M);
	if (RTRACK < unread0) { rbyte = bs->read_ptr[RTRACK]; rbyte_known = 1; }
	union buffered_socket_reader_context ctx; ctx.num = count;
	uint8_t *ptr = 0;
	cjet_ssize_t r = get_read_ptr(bs, ctx, &ptr);
	CHECK(read_inv(bs), "C09.reader_invariant_preserved");
	CHECK((r == BS_IO_TOOMUCHDATA) == (count > M), "C09.too_much_data_iff_request_exceeds_buffer");
	CHECK(reads <= M + 1, "C09.reader_terminates");
	if (r > 0) {
		CHECK((size_t)r == count, "C09.exactly_requested_count");
		CHECK(ptr >= bs->read_buffer && ptr + count <= bs->write_ptr && ptr + count == bs->read_ptr, "C09.handed_range_inside_buffer");
		/* handed bytes are stream[0..count), the rest of the buffer is stream[count..) */
		if (RTRACK < count) { CHECK(rbyte_known && ptr[RTRACK] == rbyte, "C09.handed_bytes_are_next_stream_bytes"); REACH("handed_tracked"); }
		else if (RTRACK < rpos) CHECK(rbyte_known && bs->read_ptr[RTRACK - count] == rbyte, "C09.unread_bytes_kept_in_order");
		CHECK(unread_bytes(bs) == rpos - count, "C09.no_byte_lost_or_duplicated");
	} else if (r == BS_IO_WOULD_BLOCK || r == BS_IO_ERROR || r == BS_PEER_CLOSED) {
		CHECK(unread_bytes(bs) == rpos, "C09.no_byte_lost_or_duplicated");
		if (RTRACK < rpos) CHECK(rbyte_known && bs->read_ptr[RTRACK] == rbyte, "C09.unread_bytes_kept_in_order");
		CHECK(unread_bytes(bs) < count, "C09.blocks_only_when_short");
		/* edge-triggered loop: the reader goes back to waiting only after the kernel itself answered would-block
		   (a short read is not the end of the data), and reports FIN / error only when the kernel did */
		if (r == BS_IO_WOULD_BLOCK) CHECK(reads >= 1 && last_read_mode == 0, "C09.waits_only_after_socket_drained");
		if (r == BS_PEER_CLOSED) CHECK(last_read_mode == 2, "C09.peer_closed_only_on_fin");
		if (r == BS_IO_ERROR) CHECK(last_read_mode == 1, "C09.error_only_on_socket_error");
		if (r == BS_IO_WOULD_BLOCK && reads > 1) REACH("partial_then_block");
	}
	WITNESS_END();
}

void harness_read_until(void)
{
	struct buffered_socket *bs = &BS;
	any_read_state(bs);
	size_t unread0 = unread_bytes(bs);
	static const char delim[3] = "\r\n";
	/* precondition of the reader loop: the unread bytes do not yet contain the delimiter OR they do (both) */
	RTRACK = nd_size(); __CPROVER_assume(RTRACK < M + M);
	if (RTRACK < unread0) { rbyte = bs->read_ptr[RTRACK]; rbyte_known = 1; }
	union buffered_socket_reader_context ctx; ctx.ptr = delim;
	uint8_t *ptr = 0;
	cjet_ssize_t r = internal_read_until(bs, ctx, &ptr);
	CHECK(read_inv(bs), "C09.reader_invariant_preserved");
	CHECK(reads <= M + 1, "C09.reader_terminates");
	if (r > 0) {
		size_t n = (size_t)r;
		CHECK(n >= 2 && ptr >= bs->read_buffer && ptr + n == bs->read_ptr && bs->read_ptr <= bs->write_ptr, "C09.handed_range_inside_buffer");
		CHECK(ptr[n - 2] == '\r' && ptr[n - 1] == '\n', "C09.line_ends_with_delimiter");
		/* first occurrence: no delimiter ends before position n */
		for (size_t i = 0; i + 2 < n; i++) CHECK(!(ptr[i] == '\r' && ptr[i + 1] == '\n'), "C09.line_is_shortest");
		if (RTRACK < n) CHECK(rbyte_known && ptr[RTRACK] == rbyte, "C09.handed_bytes_are_next_stream_bytes");
		else if (RTRACK < rpos) CHECK(rbyte_known && bs->read_ptr[RTRACK - n] == rbyte, "C09.unread_bytes_kept_in_order");
		CHECK(unread_bytes(bs) == rpos - n, "C09.no_byte_lost_or_duplicated");
		if (reads > 0) REACH("line_after_read");
	} else {
		CHECK(unread_bytes(bs) == rpos, "C09.no_byte_lost_or_duplicated");
		if (RTRACK < rpos) CHECK(rbyte_known && bs->read_ptr[RTRACK] == rbyte, "C09.unread_bytes_kept_in_order");
		/* a complete line is never left waiting in the buffer, however the delimiter was split across reads */
		if (r == BS_IO_WOULD_BLOCK || r == BS_IO_TOOMUCHDATA)
			CHECK(jet_memmem(bs->read_ptr, unread_bytes(bs), delim, 2) == 0, "C09.complete_line_is_delivered_not_left_in_buffer");
		if (r == BS_IO_TOOMUCHDATA) { CHECK(unread_bytes(bs) == M, "C09.too_much_data_only_when_buffer_full_without_delimiter"); REACH("line_too_long"); }
		if (r == BS_IO_WOULD_BLOCK) CHECK(reads >= 1 && last_read_mode == 0, "C09.waits_only_after_socket_drained");
		if (r == BS_PEER_CLOSED) CHECK(last_read_mode == 2, "C09.peer_closed_only_on_fin");
		if (r == BS_IO_ERROR) CHECK(last_read_mode == 1, "C09.error_only_on_socket_error");
	}
	WITNESS_END();
}

