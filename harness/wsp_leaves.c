/* Leaf obligations over the real src/websocket_peer.c (daemon-side WebSocket callbacks): C06 */
#include "verif.h"
#include <stdlib.h>
#include <string.h>
#include "websocket_peer.c"

void log_peer_info(const struct peer *p, const char *fmt, ...) { (void)p; (void)fmt; }
void log_peer_err(const struct peer *p, const char *fmt, ...) { (void)p; (void)fmt; }
static int parse_calls; static const char *parse_msg; static size_t parse_len;
int parse_message(const char *msg, size_t length, struct peer *p) { (void)p; parse_calls++; parse_msg = msg; parse_len = length; return nd_bool() ? 0 : -1; }

/* pong payload (0..125 bytes, client chosen) is copied into a fixed log buffer */
void harness_pong(void)
{
	static struct websocket_peer WP;
	size_t len = nd_size(); __CPROVER_assume(len <= 125);
	uint8_t *pay = malloc(len ? len : 1);          /* exact-size payload */
	__CPROVER_assume(pay != 0);
	enum websocket_callback_return r = pong_received(&WP.websocket, pay, len);
	CHECK(r == WS_OK, "C12.pong_accepted");
	if (len >= 50) REACH("long_pong");
	free(pay);
	WITNESS_END();
}
/* a text message goes to the dispatcher with exactly its bytes */
void harness_text(void)
{
	static struct websocket_peer WP; static char msg[4];
	size_t len = nd_size(); __CPROVER_assume(len <= 4);
	enum websocket_callback_return r = text_message_callback(&WP.websocket, msg, len);
	CHECK(parse_calls == 1 && parse_msg == msg && parse_len == len, "C12.text_message_reaches_dispatcher_with_its_own_bytes");
	CHECK(r == WS_OK || r == WS_ERROR, "C12.dispatcher_verdict_mapped");
	WITNESS_END();
}
