/* C18 - UTF-8 validator: real src/utf8_checker.c against an RFC 3629 reference automaton */
#include "verif.h"
#include "utf8_checker.c"

/* reference DFA (RFC 3629), states: 0 START, 1 need1, 2 need2, 3 need3,
   4 E0 (next A0..BF then need1), 5 ED (80..9F then need1), 6 F0 (90..BF then need2),
   7 F4 (80..8F then need2), 8 REJECT */
static int ref_step(int st, uint8_t b)
{
	switch (st) {
	case 0:
		if (b <= 0x7F) return 0;
		if (b >= 0xC2 && b <= 0xDF) return 1;
		if (b == 0xE0) return 4;
		if (b == 0xED) return 5;
		if (b >= 0xE1 && b <= 0xEF) return 2;
		if (b == 0xF0) return 6;
		if (b == 0xF4) return 7;
		if (b >= 0xF1 && b <= 0xF3) return 3;
		return 8;
	case 1: return (b >= 0x80 && b <= 0xBF) ? 0 : 8;
	case 2: return (b >= 0x80 && b <= 0xBF) ? 1 : 8;
	case 3: return (b >= 0x80 && b <= 0xBF) ? 2 : 8;
	case 4: return (b >= 0xA0 && b <= 0xBF) ? 1 : 8;
	case 5: return (b >= 0x80 && b <= 0x9F) ? 1 : 8;
	case 6: return (b >= 0x90 && b <= 0xBF) ? 2 : 8;
	case 7: return (b >= 0x80 && b <= 0x8F) ? 2 : 8;
	}
	return 8;
}

/* abstraction function: checker state -> reference state; -1 if the state is outside the invariant */
static int alpha(const struct cjet_utf8_checker *c)
{
	if (c->next_byte == 1) return (c->start_byte == 0xFF && c->length == 1) ? 0 : -1;
	uint8_t s = c->start_byte;
	if (c->length == 2) { if (c->next_byte == 2 && s >= 0xC2 && s <= 0xDF) return 1; return -1; }
	if (c->length == 3) {
		if (!(s >= 0xE0 && s <= 0xEF)) return -1;
		if (c->next_byte == 2) return s == 0xE0 ? 4 : s == 0xED ? 5 : 2;
		if (c->next_byte == 3) return 1;
		return -1;
	}
	if (c->length == 4) {
		if (!(s >= 0xF0 && s <= 0xF4)) return -1;
		if (c->next_byte == 2) return s == 0xF0 ? 6 : s == 0xF4 ? 7 : 3;
		if (c->next_byte == 3) return 2;
		if (c->next_byte == 4) return 1;
		return -1;
	}
	return -1;
}

static void any_inv_state(struct cjet_utf8_checker *c, int *st)
{
	c->start_byte = nd_u8(); c->length = nd_u8(); c->next_byte = nd_u8();
	*st = alpha(c);
	__CPROVER_assume(*st >= 0);
}

/* base case + one inductive step: simulation between is_byte_valid and the reference DFA */
void harness_step(void)
{
	struct cjet_utf8_checker c0;
	cjet_init_checker(&c0);
	CHECK(alpha(&c0) == 0, "C18.init_is_start_state");

	struct cjet_utf8_checker c; int st;
	any_inv_state(&c, &st);
	uint8_t b = nd_u8();
	bool ok = is_byte_valid(&c, b);
	int st2 = ref_step(st, b);
	CHECK(ok == (st2 != 8), "C18.byte_step_verdict");
	if (ok) { CHECK(alpha(&c) == st2, "C18.byte_step_state"); if (st2 != 0) REACH("mid_sequence"); }
	else { CHECK(alpha(&c) == 0, "C18.byte_step_reset_after_reject"); REACH("reject"); }
	WITNESS_END();
}

/* the byte-wise entry points iterate the step; from an arbitrary invariant state, 3 symbolic bytes, symbolic
   length and is_complete flag: verdict = reference (first reject wins; complete => must end in START) */
#define NB 3
void harness_bytes(void)
{
	struct cjet_utf8_checker c; int st;
	any_inv_state(&c, &st);
	uint8_t buf[NB];
	for (int i = 0; i < NB; i++) buf[i] = nd_u8();
	size_t n = nd_size(); __CPROVER_assume(n <= NB);
	bool complete = nd_bool();
	bool which = nd_bool();
	bool ok = which ? cjet_is_byte_sequence_valid(&c, buf, n, complete) : cjet_is_text_valid(&c, (const char *)buf, n, complete);
	int s = st;
	for (size_t i = 0; i < NB; i++) if (i < n && s != 8) s = ref_step(s, buf[i]);
	bool want = (s != 8) && (!complete || s == 0);
	CHECK(ok == want, "C18.byte_sequence_verdict");
	if (ok) CHECK(alpha(&c) == s, "C18.byte_sequence_state");
	if (n == NB && ok && complete) REACH("three_bytes_complete");
	WITNESS_END();
}

/* 32-bit fast path: every word, from every invariant state */
void harness_word32(void)
{
	struct cjet_utf8_checker c; int st;
	any_inv_state(&c, &st);
	uint32_t w = nd_u32();
	bool complete = nd_bool();
	bool ok = cjet_is_word_sequence_valid(&c, &w, 1, complete);
	int s = st;
	for (int j = 0; j < 4; j++) if (s != 8) s = ref_step(s, (w >> (8 * j)) & 0xFF);
	bool want = (s != 8) && (!complete || s == 0);
	CHECK(ok == want, "C18.word32_verdict");
	if (ok) CHECK(alpha(&c) == s, "C18.word32_state");
	if (st != 0) REACH("word_from_mid_sequence");
	WITNESS_END();
}

void harness_word64(void)
{
	struct cjet_utf8_checker c; int st;
	any_inv_state(&c, &st);
	uint64_t w = nd_u64();
	bool complete = nd_bool();
	bool ok = cjet_is_word64_sequence_valid(&c, &w, 1, complete);
	int s = st;
	for (int j = 0; j < 8; j++) if (s != 8) s = ref_step(s, (w >> (8 * j)) & 0xFF);
	bool want = (s != 8) && (!complete || s == 0);
	CHECK(ok == want, "C18.word64_verdict");
	if (ok) CHECK(alpha(&c) == s, "C18.word64_state");
	WITNESS_END();
}

/* two consecutive words: the state handed from one word to the next */
void harness_word32_pair(void)
{
	struct cjet_utf8_checker c;
	cjet_init_checker(&c);
	uint32_t w[2]; w[0] = nd_u32(); w[1] = nd_u32();
	bool ok = cjet_is_word_sequence_valid(&c, w, 2, true);
	int s = 0;
	for (int i = 0; i < 2; i++) for (int j = 0; j < 4; j++) if (s != 8) s = ref_step(s, (w[i] >> (8 * j)) & 0xFF);
	CHECK(ok == (s == 0), "C18.word32_pair_verdict");
	WITNESS_END();
}

/* auto-aligned front end: symbolic length <= ALEN at symbolic alignment 0..7, exact-size heap object */
#ifndef ALEN
#define ALEN 17
#endif
void harness_auto(void)
{
#ifdef AOFF
	size_t off = AOFF;              /* alignment fixed per obligation (one obligation per alignment 0..7) */
#else
	size_t off = nd_size(); __CPROVER_assume(off < 8);
#endif
	size_t n = nd_size(); __CPROVER_assume(n <= ALEN);
	/* an 8-aligned block; the text occupies [off, off+n) and the object ends right after it,
	   so a read past the text is an out-of-bounds read */
	uint8_t *block = malloc(off + n);
	__CPROVER_assume(block != 0);
	__CPROVER_assume(((uintptr_t)block) % 8 == 0);
	uint8_t *p = block + off;
	uint8_t ref[ALEN];
	for (size_t i = 0; i < ALEN; i++) { ref[i] = nd_u8(); if (i < n) p[i] = ref[i]; }
	bool complete = nd_bool();
	struct cjet_utf8_checker c;
	cjet_init_checker(&c);
	bool ok = cjet_is_word_sequence_valid_auto_alligned(&c, p, n, complete);
	int s = 0;
	for (size_t i = 0; i < ALEN; i++) if (i < n && s != 8) s = ref_step(s, ref[i]);
	bool want = (s != 8) && (!complete || s == 0);
	CHECK(ok == want, "C18.auto_aligned_verdict");
	if (n >= 16) REACH("auto_word_path");
	free(block);
	WITNESS_END();
}
