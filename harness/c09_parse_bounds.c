/* C06.parse_bounds = C09.msg_bytes_only: the bytes parse_message() entitles the JSON library to read.
 * parse_message(msg, length, peer) receives a pointer into the connection's read buffer and a length; the
 * message is NOT NUL-terminated there (raw transport: the next message's length prefix follows; WebSocket: the
 * frame payload). The JSON library's entry points are replaced by contract stubs that read exactly what their
 * documented contract allows them to read:
 *   cJSON_ParseWithOpts(value, ...)            scans value[] up to the terminating NUL
 *   cJSON_ParseWithLengthOpts(value, n, ...)   may read value[0..n)
 * The message lives in an exact-size heap object, so a read past it is an out-of-bounds read (CBMC pointer
 * check; heap-buffer-overflow under ASan in the native replay). */
#include "verif.h"
#include <stdlib.h>
#include <string.h>
#include "json/cJSON.h"

static size_t lib_read_upto;      /* how far the library read */
cJSON *verif_ParseWithOpts(const char *value, const char **end, cJSON_bool req)
{
	(void)req;
	size_t i = 0;
	while (value[i] != 0) i++;        /* the string API needs the terminator */
	lib_read_upto = i + 1;
	if (end) *end = value + i;
	return 0;
}
cJSON *verif_ParseWithLengthOpts(const char *value, size_t n, const char **end, cJSON_bool req)
{
	(void)req;
	for (size_t i = 0; i < n; i++) { volatile char c = value[i]; (void)c; }
	lib_read_upto = n;
	if (end) *end = value;
	return 0;
}
#define cJSON_ParseWithOpts verif_ParseWithOpts
#define cJSON_ParseWithLengthOpts verif_ParseWithLengthOpts
#include "parse.c"
#undef cJSON_ParseWithOpts
#undef cJSON_ParseWithLengthOpts

void log_peer_err(const struct peer *p, const char *fmt, ...) { (void)p; (void)fmt; }

#ifndef MSGMAX
#define MSGMAX 6
#endif
void harness_parse_bounds(void)
{
	size_t n = nd_size(); __CPROVER_assume(n >= 1 && n <= MSGMAX);
	char *msg = malloc(n);                       /* exactly the message, like a slice of the read buffer */
	__CPROVER_assume(msg != 0);
	for (size_t i = 0; i < MSGMAX; i++) if (i < n) msg[i] = (char)nd_u8();
	static struct peer P;
	int r = parse_message(msg, n, &P);
	CHECK(r == -1 || r == 0, "C06.unparsable_message_costs_at_most_the_connection");   /* today: -1 (connection dropped); not demanded by a property */
	CHECK(lib_read_upto <= n, "C09.json_library_reads_only_the_message");
	free(msg);
	WITNESS_END();
}
