/* C05.read_after_close over the real src/buffered_socket.c (see DESIGN.md C05).
 * The kernel read model here delivers byte COUNTS only (contents are irrelevant for this obligation). */
#include "verif.h"
#include <errno.h>
#include <string.h>
#include <stdlib.h>
#include "memfn_stub.h"
#define memcpy verif_memcpy
#define memmove verif_memmove
#include "buffered_socket.c"
#undef memcpy
#undef memmove
#define M CONFIG_MAX_MESSAGE_SIZE

void log_err(const char *f, ...) { (void)f; }
void *cjet_malloc(size_t s) { return malloc(s); }
void cjet_free(void *p) { free(p); }
static int sock_errno;
enum cjet_system_error get_socket_error(void) { return sock_errno; }
const char *get_socket_error_msg(enum cjet_system_error err) { (void)err; return ""; }
int socket_close(socket_type sock) { (void)sock; return 0; }
cjet_ssize_t socket_writev_with_prefix(socket_type sock, void *buf, size_t len, struct socket_io_vector *io_vec, unsigned int count)
{ (void)sock; (void)buf; (void)len; (void)io_vec; (void)count; return -1; }
void *jet_memmem(const void *h, size_t hl, const void *n, size_t nl)
{
	const uint8_t *hh = h; const uint8_t *nn = n;
	if (nl == 0) return (void *)h;
	for (size_t i = 0; i + nl <= hl; i++) {
		size_t j = 0;
		while (j < nl && hh[i + j] == nn[j]) j++;
		if (j == nl) return (void *)(hh + i);
	}
	return 0;
}
static int read_forbidden, reads, last_read_mode = -1;
cjet_ssize_t socket_read(socket_type sock, void *buf, size_t count)
{
	(void)sock; (void)buf;
	CHECK(!read_forbidden, "C05.no_read_after_release");
	reads++;
	int mode = (int)nd_range(0, 3);
	last_read_mode = mode;
	if (mode == 0) { sock_errno = EAGAIN; return -1; }
	if (mode == 1) { sock_errno = ECONNRESET; return -1; }
	if (mode == 2) return 0;
	size_t n = nd_size();
	__CPROVER_assume(n >= 1 && n <= count);
	return (cjet_ssize_t)n;       /* the delivered bytes are whatever the buffer holds: arbitrary */
}
static struct buffered_socket BS;

/* ================================================================== C05.read_after_close
 * The read loop must not touch the socket object once a callback reported BS_CLOSED (the callback has
 * released it). The object lives on the heap and the callback really frees it: any later access is a
 * use-after-free reported by CBMC's pointer checks (and by ASan in the native replay). */
static struct buffered_socket *HBS;
static int cb_calls, cb_closed;
static enum bs_read_callback_return closing_cb(void *context, uint8_t *buf, size_t len)
{
	(void)buf;
	struct buffered_socket *bs = context;
	CHECK(!cb_closed, "C05.no_callback_after_close");
	/* one iteration of the read loop per obligation: a second callback invocation is the start of a new
	   iteration from a state covered by the arbitrary pre-state of the readiness_event variant */
	__CPROVER_assume(cb_calls == 0);
	cb_calls++;
	int close_now = len == 0 ? 1 : nd_bool();
	if (close_now) {
		cb_closed = 1;
		read_forbidden = 1;
#ifndef NOHEAP
		free(bs);
#endif
		return BS_CLOSED;
	}
	return BS_OK;
}
static int err_cb_calls;
static void closing_error(void *ctx)
{
	struct buffered_socket *bs = ctx;
	CHECK(!cb_closed, "C05.no_error_callback_after_close");
	err_cb_calls++;
	cb_closed = 1; read_forbidden = 1;
#ifndef NOHEAP
	free(bs);
#endif
}
static enum eventloop_return el_add(const void *t, const struct io_event *ev) { (void)t; (void)ev; return nd_bool() ? EL_CONTINUE_LOOP : EL_ABORT_LOOP; }
static void el_remove(void *t, const struct io_event *ev) { (void)t; (void)ev; }
static struct eventloop LOOP = { .this_ptr = 0, .add = el_add, .remove = el_remove };

void harness_read_after_close(void)
{
#ifdef NOHEAP
	struct buffered_socket *bs = &BS;
#else
	struct buffered_socket *bs = malloc(sizeof(*bs));
	__CPROVER_assume(bs != 0);
#endif
	HBS = bs;
	buffered_socket_init(bs, 5, &LOOP, closing_error, bs);
#ifdef WHICH
	int which = WHICH;           /* entry point fixed per obligation */
#else
	int which = (int)nd_range(0, 2);
#endif
	int ret;
	if (which == 0) {
		size_t num = nd_size(); __CPROVER_assume(num >= 1 && num <= M + 1);
		ret = buffered_socket_read_exactly(bs, num, closing_cb, bs);
	} else if (which == 1) {
		ret = buffered_socket_read_until(bs, "\r\n", closing_cb, bs);
	} else {
		/* already registered reader, readiness event from the loop; arbitrary buffer state */
		size_t a = nd_size(), b = nd_size();
		__CPROVER_assume(a <= b && b <= M);
		bs->read_ptr = bs->read_buffer + a;
		bs->write_ptr = bs->read_buffer + b;
		bs->reader = get_read_ptr;
		bs->reader_context.num = (size_t)nd_range(1, M);
		bs->read_callback = closing_cb;
		bs->read_callback_context = bs;
		enum eventloop_return r = read_function(&bs->ev);
		if (cb_closed && err_cb_calls == 0) CHECK(r == EL_EVENT_REMOVED, "C05.loop_told_event_is_gone");
		ret = 0;
	}
	/* the connection is left registered and waiting only when the kernel said "would block": every other way out of the read loop
	   (too much data without delimiter, reset) is reported to the error callback, or a callback closed the connection */
	if (ret == 0 && !cb_closed && err_cb_calls == 0 && reads > 0) CHECK(last_read_mode == 0, "C13.reader_failure_is_reported_not_ignored");
	CHECK(err_cb_calls <= 1, "C05.error_reported_at_most_once");
	if (cb_closed) REACH("closed_in_callback");
#ifndef NOHEAP
	if (!cb_closed) free(bs);
#endif
	WITNESS_END();
}
