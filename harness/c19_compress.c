/* C19 - permessage-deflate buffer handling of the real src/compression.c (zlib itself is not encoded):
 * fragment reassembly and the inflate driver with inflate() replaced by a contract stub. */
#include "verif.h"
#include <stdlib.h>
#include <string.h>
#include "memfn_stub.h"
#define memcpy verif_memcpy
#define memmove verif_memmove
#include "compression.c"
#undef memcpy
#undef memmove

void log_err(const char *f, ...) { (void)f; }
void log_warn(const char *f, ...) { (void)f; }

/* zlib contract stub: inflate consumes <= avail_in and produces <= avail_out bytes, any return code */
static int inflate_calls, inflate_flush_seen = -1;
int inflate(z_streamp strm, int flush)
{
	inflate_flush_seen = flush;
	inflate_calls++;
	unsigned in = nd_uint(), out = nd_uint();
	__CPROVER_assume(in <= strm->avail_in && out <= strm->avail_out);
	if (out > 0) { strm->next_out[0] = nd_u8(); strm->next_out[out - 1] = nd_u8(); }          /* writes stay inside avail_out */
	if (in > 0) { volatile uint8_t a = strm->next_in[0], b = strm->next_in[in - 1]; (void)a; (void)b; }   /* reads stay inside avail_in */
	strm->next_in += in; strm->avail_in -= in; strm->next_out += out; strm->avail_out -= out;
	if (inflate_calls >= 3) __CPROVER_assume(strm->avail_out > 0);     /* bounds the output-doubling loop */
	int rc = (int)nd_range(-5, 1);
	return rc;
}
int inflateEnd(z_streamp strm) { (void)strm; return 0; }

static struct websocket WS;

/* fragments of a compressed message are appended to a heap buffer that has to grow */
#ifndef FMAX
#define FMAX 24
#endif
void harness_reassemble(void)
{
	WS.extension_compression.strm_decomp.avail_in = 0;
	WS.extension_compression.strm_decomp.next_in = 0;
	size_t l1 = nd_size(), l2 = nd_size();
	__CPROVER_assume(l1 >= 1 && l1 <= FMAX && l2 >= 1 && l2 <= FMAX);
	uint8_t *f1 = malloc(l1), *f2 = malloc(l2);
	__CPROVER_assume(f1 != 0 && f2 != 0);
	int r1 = reassemble(&WS, f1, l1);
	CHECK(r1 == 0, "C19.first_fragment_stored");
	int r2 = reassemble(&WS, f2, l2);
	CHECK(r2 == 0, "C19.second_fragment_stored");
	z_stream *s = &WS.extension_compression.strm_decomp;
	unsigned total = read_int_from_array(s->next_in);
	CHECK(total - s->avail_in - 4 == l1 + l2, "C19.reassembled_length_is_sum_of_fragments");
	if (l2 > 2 * (3 * l1 + 4)) REACH("second_fragment_larger_than_doubled_buffer");
	free(s->next_in); free(f1); free(f2);
	WITNESS_END();
}

/* the inflate driver: input copy + 4 byte tail, output buffer doubling */
void harness_decompress(void)
{
	size_t len = nd_size(); __CPROVER_assume(len <= 6);
	uint8_t *msg = malloc(len ? len : 1);
	__CPROVER_assume(msg != 0);
	uint8_t *free_ptr = 0; size_t have = 0;
	WS.extension_compression.client_no_context_takeover = nd_bool();
	WS.extension_compression.server_no_context_takeover = nd_bool();
	enum websocket_callback_return r = private_decompress(&WS, msg, len, &free_ptr, &have);
	/* the decompressor handles the CLIENT's stream: its context is governed by client_no_context_takeover */
	if (inflate_calls > 0) CHECK(inflate_flush_seen == (WS.extension_compression.client_no_context_takeover ? Z_FINISH : Z_SYNC_FLUSH), "C19.decompressor_context_follows_client_no_context_takeover");
	if (r == WS_OK) { CHECK(free_ptr != 0 || len == 0, "C19.output_buffer_returned"); REACH("decompressed"); }
	CHECK(inflate_calls <= 4, "C19.inflate_loop_bounded_here");
	free(free_ptr); free(msg);
	WITNESS_END();
}

/* the deflate driver: output into a caller-supplied buffer of 2 * length bytes, removal of the 4-byte sync-flush tail.
 * zlib contract stub: deflate consumes <= avail_in and produces <= avail_out bytes (deflate writes what fits and
 * keeps the rest pending: zlib.h "deflate"), any return code. */
static int deflate_calls, deflate_ends, deflate_resets, deflate_flush_seen = -1;
int deflate(z_streamp strm, int flush)
{
	deflate_flush_seen = flush;
	deflate_calls++;
	unsigned in = nd_uint(), out = nd_uint();
	__CPROVER_assume(in <= strm->avail_in && out <= strm->avail_out);
	for (unsigned i = 0; i < 8; i++) if (i < out) strm->next_out[i] = nd_u8();
	strm->next_in += in; strm->avail_in -= in; strm->next_out += out; strm->avail_out -= out;
	return (int)nd_range(-5, 1);
}
int deflateEnd(z_streamp strm) { (void)strm; deflate_ends++; return 0; }
int deflateReset(z_streamp strm) { (void)strm; deflate_resets++; return 0; }
void harness_compress(void)
{
	static z_stream defl; static z_stream *dp = &defl;
	WS.extension_compression.compression_level = 2;
	WS.extension_compression.strm_comp = &dp;
	WS.extension_compression.server_no_context_takeover = nd_bool();
	WS.extension_compression.client_no_context_takeover = nd_bool();
	size_t len = nd_size(); __CPROVER_assume(len <= 4);
	uint8_t *src = malloc(len ? len : 1), *dest = malloc(len * 2 ? len * 2 : 1);    /* the caller's contract: dest holds 2 * length bytes */
	__CPROVER_assume(src != 0 && dest != 0);
	int n = websocket_compress(&WS, dest, src, len);
	/* RFC 7692 7.1.1.1: with server_no_context_takeover the server's compressor starts every message with an empty window
	   (Z_FULL_FLUSH); the client's parameter says nothing about it */
	CHECK(deflate_calls == 1 && deflate_flush_seen == (WS.extension_compression.server_no_context_takeover ? Z_FULL_FLUSH : Z_SYNC_FLUSH), "C19.compressor_context_follows_server_no_context_takeover");
	/* memory safety: CBMC's bounds checks on dest (exact-size heap object). The result is a length inside dest, or a failure */
	CHECK(n == -1 || (n >= 0 && (size_t)n + 4 <= 2 * len), "C19.compressed_length_lies_inside_the_output_buffer_or_failure_is_reported");
	if (n >= 0) REACH("compressed"); else REACH("failed");
	free(src); free(dest);
	WITNESS_END();
}

/* a compressed message that arrives in fragments: stored by reassemble, inflated when the last fragment arrived,
 * handed to the application once, buffers released; a following fragmented message starts from a clean state */
static int frag_cb_calls; static size_t frag_cb_len;
static enum websocket_callback_return frag_cb(struct websocket *s, char *m, size_t l, bool last)
{
	(void)s; frag_cb_calls++; frag_cb_len = l;
	CHECK(last, "C19.reassembled_message_delivered_as_one_final_piece");
	if (l > 0) { volatile char a = m[0], b = m[l - 1]; (void)a; (void)b; }      /* the application reads what it was given: inside the buffer */
	return WS_OK;
}
void harness_fragmented(void)
{
	WS.extension_compression.compression_level = 2;
	WS.extension_compression.strm_decomp.avail_in = 0;
	WS.extension_compression.strm_decomp.next_in = 0;
	size_t l1 = nd_size(), l2 = nd_size();
	__CPROVER_assume(l1 >= 1 && l1 <= FMAX && l2 >= 1 && l2 <= FMAX);
	uint8_t *f1 = malloc(l1), *f2 = malloc(l2);
	__CPROVER_assume(f1 != 0 && f2 != 0);
	enum websocket_callback_return r1 = text_frame_received_comp(true, &WS, (char *)f1, l1, false, frag_cb);
	CHECK(r1 == WS_OK && frag_cb_calls == 0, "C19.fragment_stored_until_the_message_is_complete");
	enum websocket_callback_return r2 = text_frame_received_comp(true, &WS, (char *)f2, l2, true, frag_cb);
	if (r2 == WS_OK) {
		CHECK(frag_cb_calls == 1, "C19.reassembled_message_delivered_exactly_once");
		CHECK(WS.extension_compression.strm_decomp.avail_in == 0, "C19.next_fragmented_message_starts_from_a_clean_state");
		REACH("delivered");
	} else {
		CHECK(frag_cb_calls == 0, "C19.rejected_stream_is_not_delivered");
		REACH("rejected");
	}
	free(f1); free(f2);
	WITNESS_END();
}

/* the streams are set up with the negotiated windows: the decompressor (client -> server) with client_max_window_bits,
 * the compressor (server -> client) with server_max_window_bits (8 is raised to 9: zlib's deflate does not support 8) */
static int infl_bits = 999, defl_bits = 999, infl_inits, defl_inits;
int inflateInit2_(z_streamp strm, int windowBits, const char *version, int stream_size) { (void)strm; (void)version; (void)stream_size; infl_bits = windowBits; infl_inits++; return (int)nd_range(-6, 0); }
int deflateInit2_(z_streamp strm, int level, int method, int windowBits, int memLevel, int strategy, const char *version, int stream_size)
{ (void)strm; (void)level; (void)method; (void)memLevel; (void)strategy; (void)version; (void)stream_size; defl_bits = windowBits; defl_inits++; return (int)nd_range(-6, 0); }
void harness_alloc_compression(void)
{
	static z_stream defl; static z_stream *dp = &defl;
	WS.extension_compression.strm_comp = &dp;
	WS.extension_compression.compression_level = (unsigned)nd_range(1, 3);
	int cb = (int)nd_range(8, 15), sb = (int)nd_range(8, 15);
	WS.extension_compression.client_max_window_bits = cb;
	WS.extension_compression.server_max_window_bits = sb;
	alloc_compression(&WS);
	CHECK(infl_inits == 1 && infl_bits == -cb, "C19.decompressor_window_is_the_negotiated_client_window");
	if (defl_inits) { CHECK(defl_inits == 1 && defl_bits == -(sb == 8 ? 9 : sb), "C19.compressor_window_is_the_negotiated_server_window"); REACH("both_streams"); }
	WITNESS_END();
}
