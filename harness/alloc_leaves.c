/* C07.alloc_cap over the real src/alloc.c: accounting and cap, one step from an arbitrary accounted total */
#include "verif.h"
#include <stdlib.h>
#include "alloc.c"
void log_err(const char *f, ...) { (void)f; }

void harness_alloc_cap(void)
{
	const size_t cap = CONFIG_MAX_HEAPSIZE_IN_KBYTE * 1024;
	allocated_memory = nd_size();
	__CPROVER_assume(allocated_memory <= cap);
	size_t before = allocated_memory;
	size_t size = nd_size(); __CPROVER_assume(size <= 0xffffffffu);          /* requests up to 2^32 */
	size_t nmemb = nd_size(); __CPROVER_assume(nmemb <= 0xff);
#ifdef USE_CALLOC
	int use_calloc = 1;
	__CPROVER_assume(size <= 0xff);                                           /* calloc: nmemb, size <= 255 (multiplication) */
#else
	int use_calloc = 0;
#endif
	void *p = use_calloc ? cjet_calloc(nmemb, size) : cjet_malloc(size);
	CHECK(cjet_get_alloc_size() <= cap, "C07.accounted_heap_never_exceeds_cap");
	if (p) {
		size_t want = (use_calloc ? nmemb * size : size) + sizeof(size_t);
		CHECK(cjet_get_alloc_size() == before + want, "C07.allocation_accounted_exactly");
		if (use_calloc && want > sizeof(size_t)) CHECK(((unsigned char *)p)[nd_range(0, 0)] == 0, "C07.calloc_zeroes");
		cjet_free(p);
		CHECK(cjet_get_alloc_size() == before, "C07.free_returns_exactly_what_was_accounted");
		REACH("allocated");
	} else {
		CHECK(cjet_get_alloc_size() == before, "C07.refused_allocation_accounts_nothing");
		REACH("refused");
	}
	WITNESS_END();
}
