/* C06 / C02 / C04 - hostile member shapes: one JSON-RPC message per obligation (-DSHAPE=n) whose members have the
 * wrong JSON type, are missing or are nested where a scalar is expected, sent through the real dispatcher (parse.c)
 * to the real handlers. O owns state "s" = 5; B has a fetch-all subscription; A sends the hostile message.
 * Whatever the shape: no memory error (CBMC's built-in checks), at most one response, and it is an error; nothing is
 * routed, nobody else hears anything, the element set is untouched, and everything is released once the peers leave. */
#include "scn.h"
#include "hash_abs.h"

const cJSON *credentials_ok(const char *u, char *p) { (void)u; (void)p; return 0; }
cJSON *change_password(const struct peer *p, const cJSON *r, const char *u, char *pw) { (void)u; (void)pw; return create_error_response_from_request(p, r, INVALID_PARAMS, "reason", "x"); }
static struct peer O, A, B;
extern cJSON *model_parse_result;
static int dispatch(struct peer *p, cJSON *req) { model_parse_result = req; return parse_message("x", 1, p); }

static cJSON *obj1(const char *k, cJSON *v) { cJSON *o = cJSON_CreateObject(); cJSON_AddItemToObject(o, k, v); return o; }
static cJSON *obj2(const char *k, cJSON *v, const char *k2, cJSON *v2) { cJSON *o = obj1(k, v); cJSON_AddItemToObject(o, k2, v2); return o; }
static cJSON *arr1(cJSON *v) { cJSON *a = cJSON_CreateArray(); cJSON_AddItemToArray(a, v); return a; }
#define STR(s) cJSON_CreateString(s)

void harness_shape(void)
{
	__CPROVER_assume(element_hashtable_create() == 0);
	long baseline = verif_live_blocks;
	mkpeer(&O, true); mkpeer(&A, true); mkpeer(&B, true);
	int v = (int)nd_range(0, 999);
	scn_build_begin();
	cJSON *adds = mkreq("add", 1, path_params("s", 5));
	cJSON *fetch = mkreq("fetch", 2, fetch_params("fb"));
	scn_build_end();
	__CPROVER_assume(dispatch(&O, adds) == 0 && dispatch(&B, fetch) == 0);
	int expect_close = 0;      /* the message is not JSON-RPC at all: costs the sender its connection */
	int has_id = 1;            /* the message carries the usable id 9 */
	struct peer *sender = &A;   /* who sends the hostile message (B, the subscriber, for messages about its own fetch) */
	int lenient = 0;           /* the daemon tolerates this shape: the request is carried out as if the odd member were absent */
	scn_build_begin();
	cJSON *req;
#if SHAPE == 0      /* add without params */
	req = mkreq("add", 9, 0);
#elif SHAPE == 1    /* add, params is a number */
	req = mkreq("add", 9, mknumber(v));
#elif SHAPE == 2    /* add, params is an array */
	req = mkreq("add", 9, arr1(STR("s")));
#elif SHAPE == 3    /* add, path is a number */
	req = mkreq("add", 9, obj2("path", mknumber(v), "value", mknumber(1)));
#elif SHAPE == 4    /* add, path is an object */
	req = mkreq("add", 9, obj2("path", obj1("x", mknumber(v)), "value", mknumber(1)));
#elif SHAPE == 5    /* add, path missing */
	req = mkreq("add", 9, obj1("value", mknumber(v)));
#elif SHAPE == 6    /* add of a new path, access is a number: the daemon reads no groups from it and accepts the add */
	lenient = 1;
	req = mkreq("add", 9, obj2("path", STR("n"), "access", mknumber(v)));
	cJSON_AddItemToObject(cJSON_GetObjectItem(req, "params"), "value", mknumber(1));
#elif SHAPE == 7    /* add of a new path, fetchGroups holds a number: members that are not strings name no group; accepted */
	lenient = 1;
	{ cJSON *p = path_params("n", 1); cJSON_AddItemToObject(p, "access", obj1("fetchGroups", arr1(mknumber(v)))); req = mkreq("add", 9, p); }
#elif SHAPE == 8    /* add of a new path, setGroups is a string */
	{ cJSON *p = path_params("n", 1); cJSON_AddItemToObject(p, "access", obj1("setGroups", STR("g"))); req = mkreq("add", 9, p); }
#elif SHAPE == 9    /* add of a new path, fetchOnly is a number */
	{ cJSON *p = path_params("n", 1); cJSON_AddItemToObject(p, "fetchOnly", mknumber(v)); req = mkreq("add", 9, p); }
#elif SHAPE == 10   /* add of a new path, timeout is a string */
	{ cJSON *p = path_params("n", 1); cJSON_AddItemToObject(p, "timeout", STR("1")); req = mkreq("add", 9, p); }
#elif SHAPE == 11   /* change, path is a number */
	req = mkreq("change", 9, obj2("path", mknumber(v), "value", mknumber(1)));
#elif SHAPE == 12   /* change by the owner without value */
	req = mkreq("change", 9, obj1("path", STR("s")));
#elif SHAPE == 13   /* remove, path is an array */
	req = mkreq("remove", 9, obj1("path", arr1(STR("s"))));
#elif SHAPE == 14   /* set, path is a number */
	req = mkreq("set", 9, obj2("path", mknumber(v), "value", mknumber(1)));
#elif SHAPE == 15   /* set, timeout is a string */
	{ cJSON *p = path_params("s", v); cJSON_AddItemToObject(p, "timeout", STR("1")); req = mkreq("set", 9, p); }
#elif SHAPE == 16   /* call without params */
	req = mkreq("call", 9, 0);
#elif SHAPE == 17   /* fetch without id */
	req = mkreq("fetch", 9, cJSON_CreateObject());
#elif SHAPE == 18   /* fetch, id is an object */
	req = mkreq("fetch", 9, obj1("id", obj1("x", mknumber(v))));
#elif SHAPE == 19   /* fetch, path rule is a number */
	{ cJSON *p = fetch_params("fa"); cJSON_AddItemToObject(p, "path", mknumber(v)); req = mkreq("fetch", 9, p); }
#elif SHAPE == 20   /* fetch without params */
	req = mkreq("fetch", 9, 0);
#elif SHAPE == 21   /* unfetch, id is an array */
	req = mkreq("unfetch", 9, obj1("id", arr1(STR("fb"))));
#elif SHAPE == 22   /* unfetch of a fetch id that belongs to another peer */
	req = mkreq("unfetch", 9, fetch_params("fb"));
#elif SHAPE == 23   /* get, path rule is a string */
	req = mkreq("get", 9, obj1("path", STR("s")));
#elif SHAPE == 24   /* config, name is a number */
	req = mkreq("config", 9, obj1("name", mknumber(v)));
#elif SHAPE == 25   /* config without params */
	req = mkreq("config", 9, 0);
#elif SHAPE == 26   /* authenticate, user is a number */
	req = mkreq("authenticate", 9, obj2("user", mknumber(v), "password", STR("p")));
#elif SHAPE == 27   /* authenticate, password is an object */
	req = mkreq("authenticate", 9, obj2("user", STR("u"), "password", cJSON_CreateObject()));
#elif SHAPE == 28   /* passwd, user is an array */
	req = mkreq("passwd", 9, obj2("user", arr1(STR("u")), "password", STR("p")));
#elif SHAPE == 29   /* method is a number */
	req = cJSON_CreateObject(); cJSON_AddItemToObject(req, "id", cJSON_CreateNumber(9)); cJSON_AddItemToObject(req, "method", mknumber(v)); cJSON_AddItemToObject(req, "params", path_params("s", 1));
#elif SHAPE == 30   /* method is an object */
	req = cJSON_CreateObject(); cJSON_AddItemToObject(req, "id", cJSON_CreateNumber(9)); cJSON_AddItemToObject(req, "method", obj1("x", STR("add"))); cJSON_AddItemToObject(req, "params", path_params("s", 1));
#elif SHAPE == 31   /* the id is an object: not usable as an id */
	req = mkreq_id("change", obj1("x", mknumber(v)), path_params("zz", 1)); has_id = 0;
#elif SHAPE == 32   /* the id is an array */
	req = mkreq_id("change", arr1(mknumber(v)), path_params("zz", 1)); has_id = 0;
#elif SHAPE == 33   /* the id is true */
	req = mkreq_id("change", cJSON_CreateTrue(), path_params("zz", 1)); has_id = 0;
#elif SHAPE == 34   /* the message is a bare number */
	req = mknumber(v); expect_close = 1; has_id = 0;
#elif SHAPE == 35   /* the message is a bare string */
	req = STR("add"); expect_close = 1; has_id = 0;
#elif SHAPE == 36   /* an empty batch */
	req = cJSON_CreateArray(); has_id = 0;
#elif SHAPE == 37   /* a batch inside a batch */
	req = arr1(arr1(mkreq("remove", 9, path_params("s", NO_VALUE)))); expect_close = 1; has_id = 0;
#elif SHAPE == 38   /* an empty object */
	req = cJSON_CreateObject(); has_id = 0;
#elif SHAPE == 39   /* a "response" whose result is an object and whose id is a number (routed ids are strings) */
	req = obj2("result", obj1("x", mknumber(v)), "id", cJSON_CreateNumber(9)); has_id = 0; expect_close = 1;
#elif SHAPE == 40   /* a response whose id is an object */
	req = obj2("result", mknumber(v), "id", obj1("x", mknumber(1))); has_id = 0; expect_close = 1;
#elif SHAPE == 41   /* a response whose id is missing */
	req = obj1("error", mknumber(v)); has_id = 0; expect_close = 1;
#elif SHAPE == 42   /* B holds the fetch with the STRING id "fb" and sends unfetch with a NUMERIC id: ids of different JSON types are compared */
	req = mkreq("unfetch", 9, obj1("id", mknumber(v))); sender = &B;
#elif SHAPE == 43   /* ... and a second fetch with a numeric id whose parameters are malformed */
	req = mkreq("fetch", 9, obj2("id", mknumber(v), "path", mknumber(1))); sender = &B;
#endif
	scn_build_end();
	reset_log();
	int r = dispatch(sender, req);
	/* a request object with a usable id must be answered on this connection (C02), so the connection is kept. For
	   everything else the properties only say that it costs at most the sender's connection: keeping or closing are
	   both fine (expect_close records what the daemon does today; it is a reachability witness, not a demand) */
	if (has_id) CHECK(r == 0, "C02.request_with_id_keeps_the_connection");
	CHECK(r == 0 || r == -1, "C06.malformed_message_costs_at_most_the_senders_connection");
	if (r == -1) REACH("closed"); else REACH("kept");
	(void)expect_close;
	/* at most one response, to the sender only, and it is an error carrying the id when there was a usable one */
	CHECK(count_responses(sender) <= 1 && count_responses(&O) == 0 && count_responses(&A) + count_responses(&B) == count_responses(sender), "C02.at_most_one_response_and_only_to_the_sender");
	struct sent *resp = last_of(sender, K_RESPONSE);
	struct element *es = element_table_get("s");
	CHECK(es && es->peer == &O && es->value && es->value->valueint == 5, "C04.malformed_request_leaves_other_elements_alone");
	CHECK(count_kind(&O, K_ROUTED) + count_kind(&A, K_ROUTED) + count_kind(&B, K_ROUTED) == 0 && timers_alive() == 0, "C03.malformed_request_routes_nothing");
	if (lenient) {
		/* tolerated: then it must be carried out completely and consistently (success, element exists, subscriber told once) */
		struct element *en = element_table_get("n");
		CHECK(resp && resp->has_result && !resp->is_error && resp->id_int == 9, "C02.tolerated_request_is_answered_with_success");
		CHECK(en && en->peer == &A && count_events(&B, 'a', "n") == 1 && count_events(&B, 0, 0) == 1, "C04.tolerated_add_takes_effect_consistently");
		REACH("tolerated");
	} else {
		if (resp) CHECK(resp->is_error && !resp->has_result, "C02.malformed_request_is_answered_with_an_error");
		if (has_id) { CHECK(resp != 0 && resp->id_type == cJSON_Number && resp->id_int == 9, "C02.error_carries_the_request_id"); REACH("with_id"); }
		CHECK(count_events(&B, 0, 0) + count_events(&A, 0, 0) + count_events(&O, 0, 0) == 0, "C01.malformed_request_notifies_nobody");
		CHECK(element_table_get("n") == 0, "C04.malformed_request_changes_no_element");
		REACH("refused");
	}
	/* B's subscription is still alive: the owner's next change reaches it */
	reset_log();
	scn_build_begin(); cJSON *chg = mkreq("change", 3, path_params("s", v)); scn_build_end();
	__CPROVER_assume(dispatch(&O, chg) == 0);
	CHECK(count_events(&B, 'c', "s") == 1, "C01.subscription_survives_malformed_request_of_another_peer");
	free_peer_resources(&A); free_peer_resources(&B); free_peer_resources(&O);
	CHECK(timers_alive() == 0 && verif_live_blocks == baseline, "C07.malformed_request_leaves_nothing_allocated_after_peers_are_gone");
	WITNESS_END();
}
