/* C03 / C05 / C07 / C14 - routed set/call over the real router.c element.c peer.c parse.c with the timer model */
#include "scn.h"
#include "hash_abs.h"
#ifndef FAULT
#define FAULT 0
#endif

const cJSON *credentials_ok(const char *u, char *p) { (void)u; (void)p; return 0; }
cJSON *change_password(const struct peer *p, const cJSON *r, const char *u, char *pw) { (void)p; (void)r; (void)u; (void)pw; return 0; }

static struct peer O, A, C;        /* owner, caller, bystander / second caller */
extern cJSON *model_parse_result;
static int dispatch(struct peer *p, cJSON *req) { model_parse_result = req; return parse_message("x", 1, p); }

static void setup(void)
{
	__CPROVER_assume(element_hashtable_create() == 0);
	mkpeer(&O, true); mkpeer(&A, true); mkpeer(&C, true);
	scn_build_begin();
#ifdef USE_CALL
	cJSON *add = mkreq("add", 1, path_params("s", NO_VALUE));      /* a method: the routed request is a call with args */
#else
	cJSON *add = mkreq("add", 1, path_params("s", 1));
#endif
	scn_build_end();
	__CPROVER_assume(dispatch(&O, add) == 0);
	reset_log();
}
/* caller p sets "s" to v with request id `id` (0 = no id); returns the index of the routed message in LOG or -1 */
static int do_set(struct peer *p, int id, int v)
{
	scn_build_begin();
#ifdef USE_CALL
	cJSON *cp = cJSON_CreateObject(); cJSON_AddItemToObject(cp, "path", cJSON_CreateString("s")); cJSON_AddItemToObject(cp, "args", mknumber(v));
	cJSON *req = mkreq_id("call", id ? cJSON_CreateNumber(id) : 0, cp);
#else
	cJSON *req = mkreq_id("set", id ? cJSON_CreateNumber(id) : 0, path_params("s", v));
#endif
	scn_build_end();
	int before = nlog;
	int r = dispatch(p, req);
	CHECK(r == 0, "C03.set_keeps_caller_connection");
	for (int i = before; i < nlog; i++) if (LOG[i].kind == K_ROUTED && LOG[i].to == &O) return i;
	return -1;
}
static int reply(struct peer *from, const char *routed_id, int is_error, int payload)
{
	scn_build_begin();
	cJSON *m = cJSON_CreateObject();
	cJSON_AddItemToObject(m, "id", cJSON_CreateString(routed_id));
	cJSON_AddItemToObject(m, is_error ? "error" : "result", mknumber(payload));
	scn_build_end();
	return dispatch(from, m);
}
static int answers_to(const struct peer *p, int id) { int n = 0; for (int i = 0; i < nlog; i++) if (LOG[i].kind == K_RESPONSE && LOG[i].to == p && LOG[i].id_int == id) n++; return n; }
static struct sent *answer_to(const struct peer *p, int id) { for (int i = 0; i < nlog; i++) if (LOG[i].kind == K_RESPONSE && LOG[i].to == p && LOG[i].id_int == id) return &LOG[i]; return 0; }

/* ================================================================== delivered once to the owner, answered once */
void harness_reply(void)
{
	setup();
	int v = (int)nd_range(0, 999), w = (int)nd_range(0, 999);
#ifdef REPLY_ERROR
	int is_error = 1;                /* the reply's shape (result / error member) is fixed per obligation */
#else
	int is_error = 0;
#endif
	long blocks0 = verif_live_blocks;
	int k = do_set(&A, 7, v);
	CHECK(k >= 0 && count_kind(&O, K_ROUTED) == 1 && count_kind(&A, K_ROUTED) + count_kind(&C, K_ROUTED) == 0, "C03.delivered_exactly_once_to_the_owner_only");
	CHECK(k >= 0 && LOG[k].path[0] == 's' && LOG[k].path[1] == 0 && LOG[k].has_value && LOG[k].value_int == v, "C03.routed_request_carries_path_and_value_unchanged");
	CHECK(answers_to(&A, 7) == 0, "C03.no_answer_before_owner_replies");
	CHECK(timers_alive() == 1 && TM[0].armed, "C14.deadline_timer_armed");
	__CPROVER_assume(k >= 0);
	/* a reply with a forged id, and the right id sent by the wrong peer, change nothing */
	reply(&O, "zz", 0, 1);
	reply(&C, LOG[k].id_str, 0, 1);
	CHECK(answers_to(&A, 7) == 0, "C03.forged_or_foreign_reply_is_ignored");
	int r = reply(&O, LOG[k].id_str, is_error, w);
	CHECK(r >= 0, "C03.reply_keeps_owner_connection");
	struct sent *a = answer_to(&A, 7);
	CHECK(answers_to(&A, 7) == 1 && a && a->has_value && a->value_int == w && (is_error ? a->is_error && !a->has_result : a->has_result && !a->is_error), "C03.caller_gets_owner_payload_unchanged_exactly_once");
	CHECK(count_kind(&C, K_RESPONSE) == 0 && count_kind(&O, K_RESPONSE) == 0, "C02.response_only_to_the_requester");
	reply(&O, LOG[k].id_str, is_error, w);      /* duplicated reply */
	CHECK(answers_to(&A, 7) == 1, "C03.duplicated_reply_is_discarded");
	CHECK(timers_alive() == 0, "C07.request_timer_destroyed_after_reply");
	CHECK(verif_live_blocks == blocks0, "C07.routing_record_released_after_reply");
	WITNESS_END();
}

/* ================================================================== the caller cannot be reached when the owner's reply arrives:
 * that is the caller's problem, never the owner's (the owner's connection and its other requests are unaffected) */
void harness_reply_caller_unreachable(void)
{
	setup();
	int v = (int)nd_range(0, 999), w = (int)nd_range(0, 999);
	int ka = do_set(&A, 7, v);
	int kc = do_set(&C, 8, v);
	__CPROVER_assume(ka >= 0 && kc >= 0);
	failing_peer = &A;                               /* A's send path is full / broken */
	int r = reply(&O, LOG[ka].id_str, 0, w);
	failing_peer = 0;
	CHECK(r >= 0, "C11.undeliverable_answer_does_not_cost_the_owner_its_connection");
	CHECK(answers_to(&C, 8) == 0, "C03.other_callers_request_still_pending");
	r = reply(&O, LOG[kc].id_str, 0, w);
	struct sent *a = answer_to(&C, 8);
	CHECK(r >= 0 && answers_to(&C, 8) == 1 && a && a->has_result && a->value_int == w, "C03.answer_independent_of_other_callers_send_path");
	CHECK(timers_alive() == 0, "C07.request_timer_destroyed_after_reply");
	WITNESS_END();
}

/* ================================================================== deadline precedence: request > element > configured default */
void harness_deadline_precedence(void)
{
	__CPROVER_assume(element_hashtable_create() == 0);
	mkpeer(&O, true); mkpeer(&A, true);
	int v = (int)nd_range(0, 999);
	scn_build_begin();
	cJSON *ap = path_params("s", 1);
#if ELEMENT_TIMEOUT
	{ cJSON *t = cJSON_CreateNumber(0); t->valuedouble = 2.0; t->valueint = 2; cJSON_AddItemToObject(ap, "timeout", t); }
#endif
	cJSON *add = mkreq("add", 1, ap);
	cJSON *sp = path_params("s", v);
#if REQUEST_TIMEOUT_MS
	{ cJSON *t = cJSON_CreateNumber(0); t->valuedouble = REQUEST_TIMEOUT_MS / 1000.0; t->valueint = (int)(REQUEST_TIMEOUT_MS / 1000.0); cJSON_AddItemToObject(sp, "timeout", t); }
#endif
	cJSON *set = mkreq("set", 7, sp);
	scn_build_end();
	__CPROVER_assume(dispatch(&O, add) == 0);
	reset_log();
	CHECK(dispatch(&A, set) == 0, "C03.set_keeps_caller_connection");
	CHECK(timers_alive() == 1 && TM[0].armed, "C14.deadline_timer_armed");
#if REQUEST_TIMEOUT_MS
	CHECK(TM[0].ns == (uint64_t)REQUEST_TIMEOUT_MS * 1000000ull, "C14.request_timeout_takes_precedence");
#elif ELEMENT_TIMEOUT
	CHECK(TM[0].ns == 2000000000ull, "C14.element_timeout_used_when_request_has_none");
#else
	CHECK(TM[0].ns == 5000000000ull, "C14.default_deadline_is_the_configured_timeout");
#endif
	WITNESS_END();
}

/* ================================================================== deadline: timeout answer once, late reply discarded */
void harness_timeout(void)
{
	setup();
	int v = (int)nd_range(0, 999);
	long blocks0 = verif_live_blocks;
	int k = do_set(&A, 7, v);
	__CPROVER_assume(k >= 0 && timers_alive() == 1);
	CHECK(TM[0].ns == 5000000000ull, "C14.default_deadline_is_the_configured_timeout");
	tm_fire(&TM[0]);
	struct sent *a = answer_to(&A, 7);
	CHECK(answers_to(&A, 7) == 1 && a && a->is_error && !a->has_result, "C14.expiry_answers_timeout_error_exactly_once");
	CHECK(count_kind(&O, K_RESPONSE) == 0 && count_kind(&C, K_RESPONSE) == 0 && count_kind(&A, K_RESPONSE) == 1, "C02.response_only_to_the_requester");
	int r = reply(&O, LOG[k].id_str, 0, 3);     /* late reply */
	CHECK(r >= 0 && answers_to(&A, 7) == 1, "C14.late_reply_is_discarded_without_effect");
	CHECK(timers_alive() == 0, "C07.request_timer_destroyed_after_timeout");
	CHECK(verif_live_blocks == blocks0, "C07.routing_record_released_after_timeout");
	WITNESS_END();
}

/* ================================================================== owner disconnects first: shutdown error to the caller */
void harness_owner_leaves(void)
{
	setup();
	int v = (int)nd_range(0, 999);
	int k = do_set(&A, 7, v);
	__CPROVER_assume(k >= 0);
	do_set(&C, 0, v);                             /* a caller without id: must get nothing */
	free_peer_resources(&O);
	dead_peer = &O;
	struct sent *a = answer_to(&A, 7);
	CHECK(answers_to(&A, 7) == 1 && a && a->is_error, "C03.owner_disconnect_answers_shutdown_error_once");
	CHECK(count_kind(&A, K_RESPONSE) == 1, "C02.response_only_to_the_requester");
	CHECK(count_kind(&C, K_RESPONSE) == 0, "C03.caller_without_id_receives_nothing");
	CHECK(timers_alive() == 0, "C07.request_timers_destroyed_when_owner_leaves");
	CHECK(element_table_get("s") == 0, "C05.owned_elements_disappear");
	WITNESS_END();
}

/* ================================================================== a bystander's disconnect changes nothing for A */
void harness_bystander(void)
{
	setup();
	int v = (int)nd_range(0, 999), w = (int)nd_range(0, 999);
	int ka = do_set(&A, 7, v);
	__CPROVER_assume(ka >= 0);
#ifdef BYSTANDER_HAS_REQUEST
	int kc = do_set(&C, 8, v);
	__CPROVER_assume(kc >= 0);
#endif
	free_peer_resources(&C);                      /* third peer disconnects */
	dead_peer = &C;
	CHECK(answers_to(&A, 7) == 0, "C03.bystander_disconnect_does_not_answer_others_requests");
	int r = reply(&O, LOG[ka].id_str, 0, w);
	struct sent *a = answer_to(&A, 7);
	CHECK(r >= 0 && answers_to(&A, 7) == 1 && a && a->has_result && a->value_int == w, "C03.answer_independent_of_bystander_disconnect");
	CHECK(timers_alive() == 0, "C07.request_timers_destroyed_when_caller_leaves");
	WITNESS_END();
}

/* ================================================================== the caller disconnects: its request is dropped, nothing is sent to it */
void harness_caller_leaves(void)
{
	setup();
	int v = (int)nd_range(0, 999);
	int ka = do_set(&A, 7, v);
	__CPROVER_assume(ka >= 0);
	int n_before = nlog;
	free_peer_resources(&A);
	dead_peer = &A;
	int r = reply(&O, LOG[ka].id_str, 0, 3);
	CHECK(r >= 0, "C05.reply_for_departed_caller_is_harmless");
	int late = 0; for (int i = n_before; i < nlog; i++) if (LOG[i].to == &A && LOG[i].kind != K_FAILED) late++;
	(void)late;
	CHECK(timers_alive() == 0, "C07.request_timers_destroyed_when_caller_leaves");
	WITNESS_END();
}

/* ================================================================== the owner removed the addressed element (its last one) while the request is in
 * flight; then the caller disconnects: its request must still be purged from the owner's table */
void harness_caller_leaves_after_element_removed(void)
{
	setup();
	int v = (int)nd_range(0, 999);
	int ka = do_set(&A, 7, v);
	__CPROVER_assume(ka >= 0);
	scn_build_begin();
	cJSON *rem = mkreq("remove", 2, path_params("s", NO_VALUE));
	scn_build_end();
	__CPROVER_assume(dispatch(&O, rem) == 0);
	CHECK(list_empty(&O.element_list), "C04.owner_remove_takes_effect");
	free_peer_resources(&A);
	dead_peer = &A;
	CHECK(timers_alive() == 0, "C07.request_timers_destroyed_when_caller_leaves");
	int r = reply(&O, LOG[ka].id_str, 0, 3);         /* late reply: nothing may be written to the released caller */
	CHECK(r >= 0, "C05.reply_for_departed_caller_is_harmless");
	free_peer_resources(&O);
	WITNESS_END();
}

/* ================================================================== faults while routing: exactly one final answer */
void harness_route_faults(void)
{
	setup();
	int v = (int)nd_range(0, 999);
	int fault = FAULT;               /* fixed per obligation: 0 none, 1 owner's send fails, 2 timer creation fails, 3 timer start fails */
	if (fault == 1) failing_peer = &O;            /* the owner's send path is full/broken */
	if (fault == 2) timer_init_fail_at = 0;
	if (fault == 3) timer_start_fail_at = 0;
	long blocks0 = verif_live_blocks;
	int k = do_set(&A, 7, v);
	failing_peer = 0;
	int first = answers_to(&A, 7);
	if (fault == 0) { CHECK(k >= 0 && first == 0, "C03.accepted_request_is_pending"); REACH("no_fault"); }
	else {
		struct sent *a = answer_to(&A, 7);
		CHECK(first == 1 && a && a->is_error, "C03.failed_routing_answered_with_one_error");
		CHECK(count_kind(&O, K_RESPONSE) == 0 && count_kind(&C, K_RESPONSE) == 0, "C02.response_only_to_the_requester");
		/* whatever is still armed may fire: there must be no second answer */
		for (int i = 0; i < ntm; i++) if (!TM[i].destroyed && TM[i].armed) tm_fire(&TM[i]);
		CHECK(answers_to(&A, 7) == 1, "C03.no_second_answer_after_failed_routing");
		CHECK(timers_alive() == 0, "C07.request_timer_destroyed_after_failed_routing");
		CHECK(verif_live_blocks == blocks0, "C07.routing_record_released_after_failed_routing");
		if (fault == 1) REACH("owner_send_fails");
		if (fault == 3) REACH("timer_start_fails");
	}
	WITNESS_END();
}

/* ================================================================== per-owner limit: immediate refusal, nothing else disturbed */
void harness_limit(void)
{
	setup();
	int v = (int)nd_range(0, 999);
	int k1 = do_set(&A, 7, v);
	int k2 = do_set(&A, 8, v);
	int k3 = do_set(&A, 9, v);
	int k4 = do_set(&A, 10, v);
	int k5 = do_set(&A, 11, v);
	int accepted = (k1 >= 0) + (k2 >= 0) + (k3 >= 0) + (k4 >= 0) + (k5 >= 0);
	CHECK(accepted <= 4, "C03.in_flight_requests_bounded_by_table");
	CHECK(accepted + count_responses(&A) == 5, "C03.each_request_routed_or_refused_immediately");
	CHECK(k1 >= 0, "C03.first_request_accepted");
	if (k1 >= 0 && k2 >= 0) CHECK(strcmp(LOG[k1].id_str, LOG[k2].id_str) != 0, "C03.routed_ids_unique_among_in_flight_requests");
	CHECK(timers_alive() == accepted, "C07.one_timer_per_in_flight_request");
	if (accepted < 5) REACH("refused_at_limit");
	WITNESS_END();
}

/* ================================================================== shutdown: destroy_all_peers() closes every peer; everything is released */
static void closing_close(struct peer *p) { closes_requested++; free_peer_resources(p); }
void harness_shutdown(void)
{
	__CPROVER_assume(element_hashtable_create() == 0);
	long baseline = verif_live_blocks;
	mkpeer(&O, true); mkpeer(&A, true); mkpeer(&C, true);
	O.close = closing_close; A.close = closing_close; C.close = closing_close;
	int v = (int)nd_range(0, 999);
	scn_build_begin();
	cJSON *add = mkreq("add", 1, path_params("s", 1));
	cJSON *fetch = mkreq("fetch", 2, fetch_params("fc"));
	scn_build_end();
	__CPROVER_assume(dispatch(&O, add) == 0);
	__CPROVER_assume(dispatch(&C, fetch) == 0);
	reset_log();
	int ka = do_set(&A, 7, v);
	__CPROVER_assume(ka >= 0);
	destroy_all_peers();
	CHECK(closes_requested == 3, "C07.shutdown_closes_every_peer_once");
	CHECK(get_number_of_peers() == 0 && list_empty(get_peer_list()), "C07.no_peer_left_after_shutdown");
	CHECK(element_table_get("s") == 0, "C07.no_element_left_after_shutdown");
	CHECK(timers_alive() == 0, "C07.no_timer_left_after_shutdown");
	CHECK(verif_live_blocks == baseline, "C07.accounting_back_at_baseline_after_shutdown");
	WITNESS_END();
}

/* ================================================================== a peer that is everything at once ends: P owns state "s" (B subscribed), holds a
 * fetch-all of its own, is the caller of an in-flight set to O's state "t" and the owner of an in-flight set from A.
 * Afterwards: B saw remove of "s" exactly once, A got exactly one shutdown error, nothing is written to P, O's table
 * no longer holds P's request, O's element no longer reports to P's fetch, O and its element are untouched, and
 * once everybody is gone everything is released. */
static struct peer P, B2;
void harness_peer_leaves_with_everything(void)
{
	__CPROVER_assume(element_hashtable_create() == 0);
	long baseline = verif_live_blocks;
	mkpeer(&O, true); mkpeer(&A, true); mkpeer(&P, true); mkpeer(&B2, true);
	int v = (int)nd_range(0, 999), w = (int)nd_range(0, 999);
	scn_build_begin();
	cJSON *addt = mkreq("add", 1, path_params("t", 1));
	cJSON *adds = mkreq("add", 2, path_params("s", 2));
	cJSON *fb = mkreq("fetch", 3, fetch_params("fb"));
	cJSON *fp = mkreq("fetch", 4, fetch_params("fp"));
	cJSON *set_t = mkreq("set", 5, path_params("t", v));     /* P -> O */
	cJSON *set_s = mkreq("set", 6, path_params("s", v));     /* A -> P */
	scn_build_end();
	__CPROVER_assume(dispatch(&O, addt) == 0 && dispatch(&P, adds) == 0 && dispatch(&B2, fb) == 0 && dispatch(&P, fp) == 0);
	reset_log();
	__CPROVER_assume(dispatch(&P, set_t) == 0 && dispatch(&A, set_s) == 0);
	__CPROVER_assume(nlog == 2 && LOG[0].kind == K_ROUTED && LOG[0].to == &O && LOG[1].kind == K_ROUTED && LOG[1].to == &P && timers_alive() == 2);
	char id_at_o[20]; cpystr(id_at_o, sizeof(id_at_o), LOG[0].id_str);
	reset_log();
	free_peer_resources(&P);                      /* the connection ends */
	dead_peer = &P;
	CHECK(count_events(&B2, 'r', "s") == 1 && count_events(&B2, 0, 0) == 1, "C05.subscribers_see_remove_of_the_owned_element_once");
	CHECK(element_table_get("s") == 0, "C05.owned_elements_disappear");
	{ struct sent *a = answer_to(&A, 6); CHECK(answers_to(&A, 6) == 1 && a && a->is_error && !a->has_result, "C05.request_routed_to_the_leaving_peer_answered_with_one_error"); }
	CHECK(timers_alive() == 0, "C07.request_timers_of_both_directions_destroyed");
	struct element *et = element_table_get("t");
	CHECK(et && et->peer == &O && et->value && et->value->valueint == 1 && count_kind(&O, K_RESPONSE) == 0 && count_events(&O, 0, 0) == 0, "C05.other_peers_elements_unaffected");
	/* O answers the request P had in flight: dropped, nothing is written anywhere */
	reset_log();
	int r = reply(&O, id_at_o, 0, w);
	CHECK(r >= 0 && delivered() == 0, "C05.own_in_flight_requests_are_dropped");
	/* O changes "t": B still hears it, P's fetch is gone */
	reset_log();
	scn_build_begin(); cJSON *chg = mkreq("change", 7, path_params("t", w)); scn_build_end();
	__CPROVER_assume(dispatch(&O, chg) == 0);
	CHECK(count_events(&B2, 'c', "t") == 1, "C05.other_peers_fetches_unaffected");
	{ struct sent *e = last_of(&B2, K_EVENT); CHECK(e && e->value_int == w, "C01.event_carries_the_new_value"); }
	dead_peer = 0;
	free_peer_resources(&A); free_peer_resources(&B2); free_peer_resources(&O);
	CHECK(verif_live_blocks == baseline && timers_alive() == 0, "C07.everything_released_once_all_peers_are_gone");
	WITNESS_END();
}

/* ================================================================== a peer sets its own state (the request is routed back to itself); a bystander's
 * disconnect must not answer or drop it */
void harness_self_request_bystander(void)
{
	setup();
	int v = (int)nd_range(0, 999), w = (int)nd_range(0, 999);
	int k = do_set(&O, 7, v);                     /* caller == owner */
	__CPROVER_assume(k >= 0);
	CHECK(LOG[k].to == &O && LOG[k].has_value && LOG[k].value_int == v, "C03.routed_request_carries_path_and_value_unchanged");
	free_peer_resources(&C);                      /* third peer disconnects */
	dead_peer = &C;
	CHECK(answers_to(&O, 7) == 0 && timers_alive() == 1, "C03.bystander_disconnect_does_not_answer_others_requests");
	int r = reply(&O, LOG[k].id_str, 0, w);
	struct sent *a = answer_to(&O, 7);
	CHECK(r >= 0 && answers_to(&O, 7) == 1 && a && a->has_result && a->value_int == w, "C03.answer_independent_of_bystander_disconnect");
	CHECK(timers_alive() == 0, "C07.request_timer_destroyed_after_reply");
	WITNESS_END();
}

/* ================================================================== the owner's reply payload may be any JSON value (-DPAYLOAD: 0 null, 1 false, 2 empty string,
 * 3 empty object, 4 zero), as result or as error: it is a response object - relayed to the caller unchanged, never answered */
#ifndef PAYLOAD
#define PAYLOAD 0
#endif
void harness_reply_payload_types(void)
{
	setup();
	int v = (int)nd_range(0, 999);
	int k = do_set(&A, 7, v);
	__CPROVER_assume(k >= 0);
	scn_build_begin();
	cJSON *m = cJSON_CreateObject();
	cJSON_AddItemToObject(m, "id", cJSON_CreateString(LOG[k].id_str));
#if PAYLOAD == 0
	cJSON *pl = cJSON_CreateNull(); int want = cJSON_NULL;
#elif PAYLOAD == 1
	cJSON *pl = cJSON_CreateFalse(); int want = cJSON_False;
#elif PAYLOAD == 2
	cJSON *pl = cJSON_CreateString(""); int want = cJSON_String;
#elif PAYLOAD == 3
	cJSON *pl = cJSON_CreateObject(); int want = cJSON_Object;
#else
	cJSON *pl = mknumber(0); int want = cJSON_Number;
#endif
#ifdef REPLY_ERROR
	cJSON_AddItemToObject(m, "error", pl);
#else
	cJSON_AddItemToObject(m, "result", pl);
#endif
	scn_build_end();
	int before = nlog;
	int r = dispatch(&O, m);
	CHECK(r >= 0, "C03.reply_keeps_owner_connection");
	int to_owner = 0; for (int i = before; i < nlog; i++) if (LOG[i].to == &O) to_owner++;
	CHECK(to_owner == 0, "C02.notifications_and_responses_are_never_answered");
	struct sent *a = answer_to(&A, 7);
#ifdef REPLY_ERROR
	CHECK(answers_to(&A, 7) == 1 && a && a->is_error && !a->has_result && a->payload_type == want, "C03.caller_gets_owner_payload_unchanged_exactly_once");
#else
	CHECK(answers_to(&A, 7) == 1 && a && a->has_result && !a->is_error && a->payload_type == want, "C03.caller_gets_owner_payload_unchanged_exactly_once");
#endif
	CHECK(timers_alive() == 0, "C07.request_timer_destroyed_after_reply");
	WITNESS_END();
}

/* ================================================================== a request without an id is routed like any other; the owner's answer is consumed,
 * nobody is answered, and the routing record and its timer are released */
void harness_reply_to_request_without_id(void)
{
	setup();
	int v = (int)nd_range(0, 999), w = (int)nd_range(0, 999);
	long blocks0 = verif_live_blocks;
	int k = do_set(&A, 0, v);                     /* no id */
	CHECK(k >= 0 && LOG[k].has_value && LOG[k].value_int == v && timers_alive() == 1, "C03.request_without_id_is_routed_like_any_other");
	__CPROVER_assume(k >= 0);
	int before = nlog;
#ifdef REPLY_ERROR
	int r = reply(&O, LOG[k].id_str, 1, w);
#else
	int r = reply(&O, LOG[k].id_str, 0, w);
#endif
	CHECK(r >= 0, "C03.reply_keeps_owner_connection");
	CHECK(nlog == before, "C03.caller_without_id_receives_nothing");
	CHECK(timers_alive() == 0, "C07.request_timer_destroyed_after_reply");
	CHECK(verif_live_blocks == blocks0, "C07.routing_record_released_after_reply");
	/* the same when nobody answers: the deadline passes silently */
	int k2 = do_set(&A, 0, v);
	__CPROVER_assume(k2 >= 0 && timers_alive() == 1);
	before = nlog;
	for (int i = 0; i < ntm; i++) if (!TM[i].destroyed && TM[i].armed) tm_fire(&TM[i]);
	CHECK(nlog == before, "C03.caller_without_id_receives_nothing");
	CHECK(timers_alive() == 0, "C07.request_timer_destroyed_after_timeout");
	CHECK(verif_live_blocks == blocks0, "C07.routing_record_released_after_timeout");
	WITNESS_END();
}

/* ================================================================== the owner disconnects with requests of two callers in flight: each gets exactly one
 * shutdown error, nothing stays registered (run with the routed ids in distinct buckets and with all of them colliding) */
void harness_owner_leaves_two_callers(void)
{
	setup();
	int v = (int)nd_range(0, 999);
	long blocks0 = verif_live_blocks;
	int ka = do_set(&A, 7, v), kc = do_set(&C, 8, v);
	__CPROVER_assume(ka >= 0 && kc >= 0);
	CHECK(strcmp(LOG[ka].id_str, LOG[kc].id_str) != 0, "C03.routed_ids_unique_among_in_flight_requests");
#ifdef THIRD_REQUEST
	int ka2 = do_set(&A, 9, v);
	__CPROVER_assume(ka2 >= 0);
	CHECK(strcmp(LOG[ka].id_str, LOG[ka2].id_str) != 0 && strcmp(LOG[kc].id_str, LOG[ka2].id_str) != 0, "C03.routed_ids_unique_among_in_flight_requests");
	int n = 3;
#else
	int n = 2;          /* with every id colliding, a bucket of the 4-slot table holds two entries (insertion range 2) */
#endif
	__CPROVER_assume(timers_alive() == n);
	reset_log();
	free_peer_resources(&O);
	dead_peer = &O;
	CHECK(answers_to(&A, 7) == 1 && answers_to(&C, 8) == 1 && (n == 2 || answers_to(&A, 9) == 1) && delivered() == n, "C03.owner_disconnect_answers_shutdown_error_once");
	{ struct sent *a = answer_to(&C, 8); CHECK(a && a->is_error && !a->has_result, "C03.unanswered_request_ends_in_an_error"); }
	CHECK(timers_alive() == 0, "C07.request_timers_destroyed_when_owner_leaves");
	CHECK(verif_live_blocks <= blocks0, "C07.routing_records_released_when_owner_leaves");
	WITNESS_END();
}

/* ================================================================== two requests without id of one caller in flight at the same time: distinct routed ids,
 * each answer consumed, both records and timers released */
void harness_two_requests_without_id(void)
{
	setup();
	int v = (int)nd_range(0, 999);
	long blocks0 = verif_live_blocks;
	int k1 = do_set(&A, 0, v), k2 = do_set(&A, 0, v);
	__CPROVER_assume(k1 >= 0 && k2 >= 0);
	CHECK(timers_alive() == 2, "C07.one_timer_per_in_flight_request");
	CHECK(strcmp(LOG[k1].id_str, LOG[k2].id_str) != 0, "C03.routed_ids_unique_among_in_flight_requests");
	int before = nlog;
	int r1 = reply(&O, LOG[k1].id_str, 0, 1), r2 = reply(&O, LOG[k2].id_str, 0, 2);
	CHECK(r1 >= 0 && r2 >= 0 && nlog == before, "C03.caller_without_id_receives_nothing");
	CHECK(timers_alive() == 0, "C07.request_timer_destroyed_after_reply");
	CHECK(verif_live_blocks == blocks0, "C07.routing_record_released_after_reply");
	WITNESS_END();
}

/* ================================================================== the owner removed the addressed element (its last one) while the request is in flight and then
 * disconnects: the caller still gets exactly one final answer */
void harness_owner_leaves_after_element_removed(void)
{
	setup();
	int v = (int)nd_range(0, 999);
	int ka = do_set(&A, 7, v);
	__CPROVER_assume(ka >= 0);
	scn_build_begin();
	cJSON *rem = mkreq("remove", 2, path_params("s", NO_VALUE));
	scn_build_end();
	__CPROVER_assume(dispatch(&O, rem) == 0);
	CHECK(list_empty(&O.element_list) && answers_to(&A, 7) == 0 && timers_alive() == 1, "C03.removing_the_element_does_not_answer_the_request");
	free_peer_resources(&O);
	dead_peer = &O;
	struct sent *a = answer_to(&A, 7);
	CHECK(answers_to(&A, 7) == 1 && a && a->is_error && !a->has_result, "C03.owner_disconnect_answers_shutdown_error_once");
	CHECK(timers_alive() == 0, "C07.request_timers_destroyed_when_owner_leaves");
	WITNESS_END();
}
