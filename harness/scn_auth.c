/* C08 / C20 - authentication, group based access and password change over the real authenticate.c, groups.c,
 * posix/auth_file.c (included here: its credential database is installed directly instead of being loaded from
 * a file), element.c, fetch.c through the dispatcher. */
#include "scn.h"
#include "hash_abs.h"
#include <fcntl.h>
#include <unistd.h>

/* crypt(3) model: injective in the password, independent of the salt: crypt(pw, salt) = "H" ++ pw */
static char crypt_buf[16];
char *verif_crypt(const char *pw, const char *salt)
{
	(void)salt;
	crypt_buf[0] = 'H';
	size_t i = 0;
	for (; pw[i] && i < 12; i++) crypt_buf[1 + i] = pw[i];
	crypt_buf[1 + i] = 0;
	return crypt_buf;
}
/* file model for write_user_data(): see C20.crash_atomic below */
#define FCAP 8
static char FILE_BYTES[FCAP]; static size_t file_len, file_pos;
static int syscalls, crash_after = -1, crashed; static char SNAP[FCAP]; static size_t snap_len;
static void maybe_crash(void)
{
	if (syscalls == crash_after && !crashed) { crashed = 1; snap_len = file_len; for (int i = 0; i < FCAP; i++) SNAP[i] = FILE_BYTES[i]; }
	syscalls++;
}
static int trunc_fails, write_mode[3], write_amount[3], writes;
/* ftruncate keeps the file offset; bytes beyond the new length are gone (a later write past the end leaves a hole of zero bytes) */
int verif_ftruncate(int fd, off_t len) { (void)fd; if (trunc_fails) { maybe_crash(); return -1; } file_len = (size_t)len; for (size_t i = 0; i < FCAP; i++) if (i >= file_len) FILE_BYTES[i] = 0; maybe_crash(); return 0; }
off_t verif_lseek(int fd, off_t off, int whence) { (void)fd; (void)whence; file_pos = (size_t)off; maybe_crash(); return off; }
ssize_t verif_write(int fd, const void *buf, size_t n)
{
	(void)fd;
	int w = writes < 3 ? writes : 2; writes++;
	if (write_mode[w] == 0) { maybe_crash(); return -1; }
	if (write_mode[w] == 3 && writes <= 2) { maybe_crash(); return 0; }    /* nothing written, no error (only the first two calls: the update must end) */
	size_t amount = write_mode[w] == 1 ? (size_t)write_amount[w] : n;
	__CPROVER_assume(amount >= 1 && amount <= n);
	const char *b = buf;
	for (size_t i = 0; i < FCAP; i++) if (i < amount && file_pos + i < FCAP) FILE_BYTES[file_pos + i] = b[i];
	file_pos += amount;
	if (file_pos > file_len) file_len = file_pos;
	maybe_crash();
	return (ssize_t)amount;
}
static int random_symbolic;
void cjet_get_random_bytes(void *b, size_t n) { unsigned char *p = b; for (size_t i = 0; i < n; i++) p[i] = random_symbolic ? nd_u8() : (unsigned char)(17 + i); }
/* serialisation of the database: the library's text rendering is not modelled; the new file content is "NEW" */
static char *verif_print_db(const cJSON *c) { (void)c; char *r = cjet_malloc(4); if (!r) return 0; r[0] = 'N'; r[1] = 'E'; r[2] = 'W'; r[3] = 0; return r; }

#define crypt verif_crypt
#define ftruncate verif_ftruncate
#define lseek verif_lseek
#define write verif_write
#define cJSON_Print verif_print_db
#include "posix/auth_file.c"
#undef crypt
#undef ftruncate
#undef lseek
#undef write
#undef cJSON_Print

static struct peer O, P1, P2;
extern cJSON *model_parse_result;
static int dispatch(struct peer *p, cJSON *req) { model_parse_result = req; return parse_message("x", 1, p); }

static cJSON *strarr1(const char *s) { cJSON *a = cJSON_CreateArray(); cJSON_AddItemToArray(a, cJSON_CreateString(s)); return a; }
static cJSON *mkuser(const char *hash, const char *fg, const char *sg, int admin, int readonly)
{
	cJSON *u = cJSON_CreateObject();
	cJSON_AddItemToObject(u, "password", cJSON_CreateString(hash));
	cJSON *auth = cJSON_CreateObject();
	if (fg) cJSON_AddItemToObject(auth, "fetchGroups", strarr1(fg));
	if (sg) cJSON_AddItemToObject(auth, "setGroups", strarr1(sg));
	cJSON_AddItemToObject(u, "auth", auth);
	if (admin == 1) cJSON_AddItemToObject(u, "admin", cJSON_CreateTrue());
	if (admin == 2) cJSON_AddItemToObject(u, "admin", cJSON_CreateFalse());
	if (admin == 3) cJSON_AddItemToObject(u, "admin", cJSON_CreateNull());
	if (admin == 4) cJSON_AddItemToObject(u, "admin", mknumber(0));
	if (readonly) cJSON_AddItemToObject(u, "readonly", cJSON_CreateTrue());
	return u;
}
/* credential database: u1 (fetch g1, set g1), u2 (fetch g2), adm (admin, fetch g1), ro (read-only) */
static void install_db(void)
{
	scn_build_begin();
	__CPROVER_assume(create_groups() == 0);
	cJSON *db = cJSON_CreateObject();
	cJSON *us = cJSON_CreateObject();
	cJSON_AddItemToObject(us, "u1", mkuser("Hp1", "g1", "g1", 0, 0));
	cJSON_AddItemToObject(us, "u2", mkuser("Hp2", "g2", 0, 0, 0));
	cJSON_AddItemToObject(us, "adm", mkuser("Hpa", "g1", 0, 1, 0));
	cJSON_AddItemToObject(us, "ro", mkuser("Hpr", 0, 0, 0, 1));
	cJSON_AddItemToObject(us, "u3", mkuser("Hp3", "g", "g", 0, 0));        /* group "g": its name is a prefix of "g1" */
	cJSON_AddItemToObject(us, "u1x", mkuser("Hpx", 0, 0, 0, 0));           /* user "u1x": "u1" is a prefix of its name */
	cJSON_AddItemToObject(us, "uc", mkuser("Hpc", "g1", 0, 0, 0));         /* "uc" may call g1 methods */
	cJSON_AddItemToObject(cJSON_GetObjectItem(cJSON_GetObjectItem(us, "uc"), "auth"), "callGroups", strarr1("g1"));
	cJSON_AddItemToObject(us, "us", mkuser("Hps", "g1", "g1", 0, 0));      /* "us" may fetch and SET g1 elements - but not call */
	cJSON_AddItemToObject(us, "uo", mkuser("Hpo", 0, "g1", 0, 0));         /* "uo" may SET g1 elements but is in no fetch group */
#if defined(PWCASE) && PWCASE >= 12
	/* accounts whose "admin" entry is present but not true: false, null, the number 0 */
	cJSON_AddItemToObject(us, "af", mkuser("Hpf", "g1", 0, 2, 0));
	cJSON_AddItemToObject(us, "an", mkuser("Hpn", "g1", 0, 3, 0));
	cJSON_AddItemToObject(us, "az", mkuser("Hpz", "g1", 0, 4, 0));
#endif
	cJSON_AddItemToObject(db, "users", us);
	user_data = db; users = us; password_file = 5;
	cJSON *g = cJSON_CreateArray(); cJSON_AddItemToArray(g, cJSON_CreateString("g1")); cJSON_AddItemToArray(g, cJSON_CreateString("g2")); cJSON_AddItemToArray(g, cJSON_CreateString("g"));
	__CPROVER_assume(add_groups(g) == 0);
	cJSON_Delete(g);
	FILE_BYTES[0] = 'O'; FILE_BYTES[1] = 'L'; FILE_BYTES[2] = 'D'; FILE_BYTES[3] = '!'; file_len = 4;
	write_mode[0] = write_mode[1] = write_mode[2] = 2;
	scn_build_end();
}
static cJSON *auth_req(int id, const char *method, const char *user, const char *pw)
{
	cJSON *p = cJSON_CreateObject();
	if (user) cJSON_AddItemToObject(p, "user", cJSON_CreateString(user));
	if (pw) cJSON_AddItemToObject(p, "password", cJSON_CreateString(pw));
	return mkreq(method, id, p);
}
static int login(struct peer *p, const char *user, const char *pw)
{
	scn_build_begin(); cJSON *r = auth_req(90, "authenticate", user, pw); scn_build_end();
	int before = nlog;
	int rc = dispatch(p, r);
	return rc == 0 && nlog == before + 1 && LOG[before].has_result;
}

/* ================================================================== C08.auth_step: one authenticate request */
#ifndef AUTHCASE
#define AUTHCASE 0
#endif
void harness_auth_step(void)
{
	__CPROVER_assume(element_hashtable_create() == 0);
	install_db();
	mkpeer(&P1, true);
	CHECK(P1.fetch_groups == 0 && P1.set_groups == 0 && P1.call_groups == 0 && P1.user_name == 0, "C08.unauthenticated_peer_holds_no_groups");
	scn_build_begin();
#if AUTHCASE == 0
	cJSON *req = auth_req(1, "authenticate", "u1", "p1");          /* right password */
#elif AUTHCASE == 1
	cJSON *req = auth_req(1, "authenticate", "u1", "p2");          /* wrong password */
#elif AUTHCASE == 2
	cJSON *req = auth_req(1, "authenticate", "nobody", "p1");      /* unknown user */
#elif AUTHCASE == 3
	cJSON *req = auth_req(1, "authenticate", "u1", 0);             /* no password member */
#else
	cJSON *req = auth_req(1, "authenticate", "u2", "p2");          /* another user: other groups */
#endif
	scn_build_end();
	cJSON *pwnode = cJSON_GetObjectItem(cJSON_GetObjectItem(req, "params"), "password");
	cJSON *resp = handle_authentication(&P1, req);
	int ok = resp && cJSON_GetObjectItem(resp, "result") != 0;
	CHECK(resp != 0 && (ok != (cJSON_GetObjectItem(resp, "error") != 0)), "C02.authenticate_answered_with_result_xor_error");
	if (pwnode) CHECK(pwnode->valuestring[0] == 0 && pwnode->valuestring[1] == 0, "C08.password_cleared_after_use");
#if AUTHCASE == 0
	CHECK(ok && P1.fetch_groups == 1 && P1.set_groups == 1 && P1.call_groups == 0, "C08.successful_authentication_grants_exactly_the_users_groups");
	CHECK(P1.user_name && P1.user_name[0] == 'u' && P1.user_name[1] == '1' && P1.user_name[2] == 0, "C08.authenticated_user_recorded");
#elif AUTHCASE == 4
	CHECK(ok && P1.fetch_groups == 2 && P1.set_groups == 0 && P1.call_groups == 0, "C08.successful_authentication_grants_exactly_the_users_groups");
#else
	CHECK(!ok, "C08.bad_credentials_refused");
	CHECK(P1.fetch_groups == 0 && P1.set_groups == 0 && P1.call_groups == 0 && P1.user_name == 0, "C08.failed_authentication_changes_nothing");
#endif
	WITNESS_END();
}

/* ================================================================== C08.reauth: authenticate twice, nothing leaks, groups follow the last success */
void harness_reauth(void)
{
	__CPROVER_assume(element_hashtable_create() == 0);
	install_db();
	long baseline = verif_live_blocks;
	mkpeer(&P1, true);
	CHECK(login(&P1, "u1", "p1"), "C08.first_authentication_succeeds");
	CHECK(!login(&P1, "u2", "bad"), "C08.bad_credentials_refused");
	CHECK(P1.fetch_groups == 1 && P1.set_groups == 1, "C08.failed_authentication_changes_nothing");
	CHECK(login(&P1, "u2", "p2"), "C08.second_authentication_succeeds");
	CHECK(P1.fetch_groups == 2 && P1.set_groups == 0, "C08.groups_follow_the_last_successful_authentication");
	free_peer_resources(&P1);
	CHECK(verif_live_blocks == baseline, "C07.repeated_authentication_leaks_nothing");
	WITNESS_END();
}

/* ================================================================== C08.visibility: fetch events and set rights follow the groups */
void harness_visibility(void)
{
	__CPROVER_assume(element_hashtable_create() == 0);
	install_db();
	mkpeer(&O, true); mkpeer(&P1, true); mkpeer(&P2, true);
	int v = (int)nd_range(0, 999);
#if VISCASE == 0
	__CPROVER_assume(login(&P1, "u1", "p1"));      /* g1: may see and set */
#elif VISCASE == 1
	__CPROVER_assume(login(&P1, "u2", "p2"));      /* g2 only: may neither see nor set */
#elif VISCASE == 3
	__CPROVER_assume(login(&P1, "u3", "p3"));      /* group "g" only, a different group whose name is a prefix of "g1" */
#elif VISCASE == 4
	__CPROVER_assume(login(&P1, "uc", "pc"));      /* fetch group g1 but no set group: may see, may not set */
#elif VISCASE == 5
	__CPROVER_assume(login(&P1, "uo", "po"));      /* set group g1 but no fetch group: may set, never sees */
#else
	/* P1 never authenticates */
#endif
	scn_build_begin();
	cJSON *params = path_params("s", v);
	cJSON *access = cJSON_CreateObject();
	cJSON_AddItemToObject(access, "fetchGroups", strarr1("g1"));
	cJSON_AddItemToObject(access, "setGroups", strarr1("g1"));
	cJSON_AddItemToObject(params, "access", access);
	cJSON *add = mkreq("add", 1, params);
	cJSON *fetch = mkreq("fetch", 2, fetch_params("f"));
	cJSON *set = mkreq("set", 3, path_params("s", 7));
	cJSON *get = mkreq("get", 4, cJSON_CreateObject());
	scn_build_end();
	__CPROVER_assume(dispatch(&P1, fetch) == 0);               /* fetch first: the add must be filtered too */
	reset_log();
	__CPROVER_assume(dispatch(&O, add) == 0);
	int saw_add = count_events(&P1, 'a', "s");
	reset_log();
	CHECK(dispatch(&P1, set) == 0, "C08.set_keeps_connection");
	int routed = count_kind(&O, K_ROUTED);
	struct sent *sr = last_of(&P1, K_RESPONSE);
	int set_answered = sr != 0, set_refused = sr && sr->is_error;
	reset_log();
	CHECK(dispatch(&P1, get) >= 0, "C08.get_keeps_connection");
	struct sent *gr = last_of(&P1, K_RESPONSE);
	CHECK(gr && gr->has_result, "C08.get_answered");
#if VISCASE == 0 || VISCASE == 4
	CHECK(gr && gr->result_items == 1, "C08.get_lists_elements_of_the_peers_groups");
	CHECK(saw_add == 1, "C08.member_of_fetch_group_sees_element");
#else
	CHECK(gr && gr->result_items == 0, "C08.get_hides_elements_of_other_groups");
	CHECK(saw_add == 0, "C08.non_member_never_sees_element");
#endif
#if VISCASE == 0 || VISCASE == 5
	CHECK(routed == 1 && !set_answered, "C08.member_of_set_group_may_set");
#else
	CHECK(routed == 0 && set_refused, "C08.non_member_may_not_set");
#endif
	WITNESS_END();
}

/* ================================================================== C08.call_rights: calling a method follows the call groups (not the set or fetch groups) */
void harness_call_rights(void)
{
	__CPROVER_assume(element_hashtable_create() == 0);
	install_db();
	mkpeer(&O, true); mkpeer(&P1, true);
	int v = (int)nd_range(0, 999);
#if CALLCASE == 0
	__CPROVER_assume(login(&P1, "uc", "pc"));      /* callGroups g1: may call */
#elif CALLCASE == 1
	__CPROVER_assume(login(&P1, "us", "ps"));      /* fetch and SET group g1, no call group: may not call */
#else
	/* never authenticates */
#endif
	scn_build_begin();
	cJSON *params = path_params("m", NO_VALUE);
	cJSON *access = cJSON_CreateObject();
	cJSON_AddItemToObject(access, "fetchGroups", strarr1("g1"));
	cJSON_AddItemToObject(access, "callGroups", strarr1("g1"));
	cJSON_AddItemToObject(params, "access", access);
	cJSON *add = mkreq("add", 1, params);
	cJSON *cp = cJSON_CreateObject(); cJSON_AddItemToObject(cp, "path", cJSON_CreateString("m")); cJSON_AddItemToObject(cp, "args", mknumber(v));
	cJSON *call = mkreq("call", 3, cp);
	scn_build_end();
	__CPROVER_assume(dispatch(&O, add) == 0);
	reset_log();
	CHECK(dispatch(&P1, call) == 0, "C08.call_keeps_connection");
	int routed = count_kind(&O, K_ROUTED);
	struct sent *cr = last_of(&P1, K_RESPONSE);
#if CALLCASE == 0
	{ struct sent *rt = last_of(&O, K_ROUTED); CHECK(routed == 1 && cr == 0 && rt && rt->value_int == v, "C08.member_of_call_group_may_call"); REACH("allowed"); }
#else
	CHECK(routed == 0 && cr && cr->is_error && count_responses(&P1) == 1 && timers_alive() == 0, "C08.non_member_of_call_group_may_not_call");
	REACH("refused");
#endif
	WITNESS_END();
}

/* ================================================================== C20.authorisation: who may change whose password */
void harness_passwd(void)
{
	__CPROVER_assume(element_hashtable_create() == 0);
	install_db();
	mkpeer(&P1, true);
	const char *target = "u1"; int allowed = 0;
#if PWCASE == 0
	target = "u1"; allowed = 0;                                 /* unauthenticated peer */
#elif PWCASE == 1
	__CPROVER_assume(login(&P1, "u1", "p1")); target = "u1"; allowed = 1;      /* own account */
#elif PWCASE == 2
	__CPROVER_assume(login(&P1, "u1", "p1")); target = "u2"; allowed = 0;      /* somebody else's, not admin */
#elif PWCASE == 3
	__CPROVER_assume(login(&P1, "adm", "pa")); target = "u1"; allowed = 1;     /* admin changes another account */
#elif PWCASE == 4
	__CPROVER_assume(login(&P1, "adm", "pa")); target = "ro"; allowed = 0;     /* read-only account */
#elif PWCASE == 5
	__CPROVER_assume(login(&P1, "adm", "pa")); target = "nobody"; allowed = 0; /* unknown account */
#elif PWCASE == 6
	__CPROVER_assume(login(&P1, "ro", "pr")); target = "ro"; allowed = 0;      /* own account, but read-only */
#elif PWCASE == 7
	__CPROVER_assume(login(&P1, "u1", "p1")); target = "u1x"; allowed = 0;     /* an account whose name starts with the requester's name */
#elif PWCASE == 8
	__CPROVER_assume(login(&P1, "u1x", "px")); target = "u1"; allowed = 0;     /* an account whose name is a prefix of the requester's name */
#elif PWCASE == 9
	__CPROVER_assume(!login(&P1, "u1", "bad")); target = "u1"; allowed = 0;    /* claimed to be u1 with a wrong password: still unauthenticated */
#elif PWCASE == 10
	__CPROVER_assume(!login(&P1, "adm", "bad")); target = "u1"; allowed = 0;   /* claimed to be the admin with a wrong password */
#elif PWCASE == 11
	__CPROVER_assume(login(&P1, "u2", "p2") && !login(&P1, "adm", "bad")); target = "u1"; allowed = 0;   /* authenticated as u2, then a failed claim to be the admin */
#elif PWCASE == 12
	__CPROVER_assume(login(&P1, "af", "pf")); target = "u1"; allowed = 0;      /* requester's "admin" entry is false */
#elif PWCASE == 13
	__CPROVER_assume(login(&P1, "an", "pn")); target = "u1"; allowed = 0;      /* requester's "admin" entry is null */
#elif PWCASE == 14
	__CPROVER_assume(login(&P1, "az", "pz")); target = "u1"; allowed = 0;      /* requester's "admin" entry is the number 0 */
#endif
	scn_build_begin(); cJSON *req = auth_req(5, "passwd", target, "nw"); scn_build_end();
	reset_log();
	int r = dispatch(&P1, req);
	struct sent *resp = last_of(&P1, K_RESPONSE);
	CHECK(r == 0 && count_responses(&P1) == 1 && resp, "C02.passwd_answered_once");
	int ok = resp && resp->has_result && !resp->is_error;
	CHECK(ok == allowed, "C20.password_change_carried_out_iff_authorised");
	cJSON *u1pw = cJSON_GetObjectItem(cJSON_GetObjectItem(users, "u1"), "password");
	if (!allowed) {
		CHECK(u1pw && u1pw->valuestring[0] == 'H' && u1pw->valuestring[1] == 'p' && u1pw->valuestring[2] == '1' && u1pw->valuestring[3] == 0, "C20.refused_change_leaves_database_unchanged");
		{ cJSON *xpw = cJSON_GetObjectItem(cJSON_GetObjectItem(users, "u1x"), "password");
		  CHECK(xpw && xpw->valuestring[0] == 'H' && xpw->valuestring[1] == 'p' && xpw->valuestring[2] == 'x' && xpw->valuestring[3] == 0, "C20.refused_change_leaves_database_unchanged"); }
		CHECK(syscalls == 0, "C20.refused_change_does_not_touch_the_file");
		REACH("refused");
	} else {
		char n1[3] = "nw", o1[3] = "p1";
		CHECK(credentials_ok("u1", n1) != 0, "C20.new_password_authenticates");
		CHECK(credentials_ok("u1", o1) == 0, "C20.old_password_no_longer_authenticates");
		CHECK(file_len == 3 && FILE_BYTES[0] == 'N' && FILE_BYTES[1] == 'E' && FILE_BYTES[2] == 'W', "C20.file_holds_the_new_database");
		/* a second change in the same process: the file again holds exactly the serialised database */
		scn_build_begin(); cJSON *req2 = auth_req(6, "passwd", target, "n2"); scn_build_end();
		reset_log();
		int r2 = dispatch(&P1, req2);
		struct sent *resp2 = last_of(&P1, K_RESPONSE);
		CHECK(r2 == 0 && resp2 && resp2->has_result, "C20.second_change_is_carried_out");
		CHECK(file_len == 3 && FILE_BYTES[0] == 'N' && FILE_BYTES[1] == 'E' && FILE_BYTES[2] == 'W', "C20.file_holds_the_new_database_after_every_change");
		REACH("changed");
	}
	WITNESS_END();
}

/* ================================================================== C20.salt: a freshly drawn salt consists of characters of the crypt(3) alphabet only,
 * whatever the random source delivers (a NUL or '$' inside it would truncate or re-tag the salt: crypt() then fails or
 * hashes with other parameters and neither the old nor the new password authenticates) */
void harness_fill_salt(void)
{
	random_symbolic = 1;
	unsigned len = (unsigned)nd_range(0, 16);
	char buf[20];
	for (int i = 0; i < 20; i++) buf[i] = 'X';
	fill_salt(buf, len);
	for (unsigned i = 0; i < 16; i++) if (i < len) {
		char c = buf[i];
		CHECK((c >= 'a' && c <= 'z') || (c >= 'A' && c <= 'Z') || (c >= '0' && c <= '9') || c == '.' || c == '/', "C20.salt_characters_are_from_the_crypt_alphabet");
	}
	CHECK(buf[len] == '$' && buf[len + 1] == 0, "C20.salt_is_terminated_after_exactly_the_requested_length");
	if (len == 16) REACH("long_salt");
	WITNESS_END();
}

/* ================================================================== C20.crash_atomic: the file at every crash point / write outcome */
void harness_crash_atomic(void)
{
	install_db();
	trunc_fails = nd_bool();
	for (int i = 0; i < 3; i++) { write_mode[i] = (int)nd_range(0, i < 2 ? 3 : 2); write_amount[i] = (int)nd_range(1, 3); }
	crash_after = (int)nd_range(-1, 8);
	file_pos = (size_t)nd_range(0, 4);      /* where earlier reads / updates left the offset of the open file: anywhere */
	int r = write_user_data();
	CHECK(writes <= 5, "C20.update_terminates");
	int is_new = file_len == 3 && FILE_BYTES[0] == 'N' && FILE_BYTES[1] == 'E' && FILE_BYTES[2] == 'W';
	if (r == 0) { CHECK(is_new, "C20.completed_update_leaves_exactly_the_new_database"); REACH("completed"); }
	if (crashed) {
		int snap_old = snap_len == 4 && SNAP[0] == 'O' && SNAP[1] == 'L' && SNAP[2] == 'D' && SNAP[3] == '!';
		int snap_new = snap_len == 3 && SNAP[0] == 'N' && SNAP[1] == 'E' && SNAP[2] == 'W';
		CHECK(snap_old || snap_new, "C20.file_holds_old_or_new_database_at_every_crash_point");
		REACH("crashed");
	}
	if (r != 0 && !crashed) {
		int still_old = file_len == 4 && FILE_BYTES[0] == 'O' && FILE_BYTES[1] == 'L' && FILE_BYTES[2] == 'D' && FILE_BYTES[3] == '!';
		CHECK(still_old || is_new, "C20.failed_update_leaves_old_or_new_database");
		REACH("failed");
	}
	WITNESS_END();
}
