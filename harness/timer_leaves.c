/* Leaf obligations over the real src/linux/timer_linux.c and src/timer.c (C07, C14) */
#include "verif.h"
#include <errno.h>
#include <sys/timerfd.h>

static int tfd_open, tfd_created, tfd_closed, settime_fail;
static struct itimerspec last_ts;
int verif_timerfd_create(int clock, int flags) { (void)clock; (void)flags; if (nd_bool()) return -1; tfd_created++; tfd_open = 1; return 11; }
int verif_timerfd_settime(int fd, int flags, const struct itimerspec *n, struct itimerspec *o)
{ (void)flags; (void)o; CHECK(fd == 11 && tfd_open, "C07.timer_syscall_on_open_descriptor"); last_ts = *n; return settime_fail ? -1 : 0; }
#define timerfd_create verif_timerfd_create
#define timerfd_settime verif_timerfd_settime
#ifndef NS_BITS
#define NS_BITS 24
#endif
#include "linux/timer_linux.c"
#undef timerfd_create
#undef timerfd_settime
#include "timer.c"

void log_err(const char *f, ...) { (void)f; }
int socket_close(socket_type s) { CHECK(s == 11 && tfd_open, "C07.no_double_close"); tfd_open = 0; tfd_closed++; return 0; }
cjet_ssize_t socket_read(socket_type s, void *buf, size_t n) { (void)s; (void)buf; return nd_bool() ? (cjet_ssize_t)n : -1; }

/* the loop object: this_ptr is what add/remove must receive (eventloop.h contract; eventloop_epoll.h:37-41) */
static int LOOP_IMPL;           /* stands for struct eventloop_epoll */
static int adds, removes, add_fail;
static const struct io_event *registered;
static enum eventloop_return l_add(const void *t, const struct io_event *ev)
{
	CHECK(t == &LOOP_IMPL, "C07.loop_add_receives_loop_object");
	if (add_fail) return EL_ABORT_LOOP;
	adds++; registered = ev; return EL_CONTINUE_LOOP;
}
static void l_remove(void *t, const struct io_event *ev)
{
	CHECK(t == &LOOP_IMPL, "C07.loop_remove_receives_loop_object");
	if (registered == ev) registered = 0;
	removes++;
}
static struct eventloop LOOP = { .this_ptr = &LOOP_IMPL, .add = l_add, .remove = l_remove };

static int handler_calls, handler_cancelled;
static void on_timer(void *ctx, bool cancelled) { (void)ctx; handler_calls++; handler_cancelled = cancelled; }

/* C07.timer_lifecycle (leaf): init -> start -> (expiry | cancel) -> destroy */
void harness_timer_lifecycle(void)
{
	struct cjet_timer t;
	add_fail = nd_bool();
	int r = cjet_timer_init(&t, &LOOP);
	if (r != 0) {
		CHECK(!tfd_open, "C07.timerfd_closed_when_init_fails");
		CHECK(registered == 0, "C07.no_registration_when_init_fails");
		REACH("init_failed");
	} else {
		CHECK(tfd_open && registered == &t.ev, "C07.timer_registered_with_loop");
		settime_fail = nd_bool();
		uint64_t ns = nd_u64();
		__CPROVER_assume(ns < ((uint64_t)1 << NS_BITS));     /* full 64-bit range: C14.itimerspec_full_range */
		int s = t.start(&t, ns, on_timer, 0);
		if (s == 0) {
			CHECK((uint64_t)last_ts.it_value.tv_sec * 1000000000u + (uint64_t)last_ts.it_value.tv_nsec == ns, "C14.itimerspec_recombines_to_deadline");
			CHECK(last_ts.it_value.tv_nsec >= 0 && last_ts.it_value.tv_nsec < 1000000000, "C14.itimerspec_nanoseconds_normalised");
			CHECK(last_ts.it_interval.tv_sec == 0 && last_ts.it_interval.tv_nsec == 0, "C14.timer_is_one_shot");
		}
		if (nd_bool()) { t.ev.read_function(&t.ev); CHECK(handler_calls <= 1, "C14.expiry_calls_handler_at_most_once"); }
		else { settime_fail = 0; t.cancel(&t); CHECK(handler_calls == 1 && handler_cancelled, "C14.cancel_reports_cancellation"); }
		cjet_timer_destroy(&t);
		CHECK(!tfd_open && tfd_closed == 1, "C07.timerfd_closed_on_destroy");
		CHECK(registered == 0 && removes == 1, "C07.timer_deregistered_on_destroy");
		REACH("destroyed");
	}
	WITNESS_END();
}

/* C14.itimerspec_full_range: the ns -> itimerspec split for every 64-bit deadline (divide by 1e9: integer-encoded back end) */
void harness_itimerspec(void)
{
	uint64_t ns = nd_u64();
	struct itimerspec ts = convert_timeoutns_to_itimerspec(ns);
	CHECK((uint64_t)ts.it_value.tv_sec * 1000000000u + (uint64_t)ts.it_value.tv_nsec == ns, "C14.itimerspec_recombines_to_deadline");
	CHECK(ts.it_value.tv_nsec >= 0 && ts.it_value.tv_nsec < 1000000000, "C14.itimerspec_nanoseconds_normalised");
	CHECK(ts.it_interval.tv_sec == 0 && ts.it_interval.tv_nsec == 0, "C14.timer_is_one_shot");
	WITNESS_END();
}

/* C14.timeout_value: precedence/lower bound/type check and the seconds -> ns conversion */
static int err_responses;
static cJSON ERR;
cJSON *create_error_response_from_request(const struct peer *p, const cJSON *request, int code, const char *tag, const char *reason)
{ (void)p; (void)request; (void)code; (void)tag; (void)reason; err_responses++; return &ERR; }

void harness_timeout_value(void)
{
	cJSON t; cJSON *resp = 0;
	int present = nd_bool();
	t.type = (int)nd_range(0, 7) == 3 ? cJSON_Number : (1 << nd_range(0, 7));
	t.valuedouble = nd_double();
	uint64_t dflt = nd_u64();
	__CPROVER_assume(!(t.valuedouble != t.valuedouble));        /* cJSON's number parser cannot produce NaN */
	uint64_t ns = get_timeout_in_nsec(0, 0, present ? &t : 0, &resp, dflt);
	if (!present) { CHECK(ns == dflt && resp == 0, "C14.absent_timeout_uses_default"); REACH("default_used"); }
	else if (t.type != cJSON_Number) { CHECK(ns == 0 && resp == &ERR, "C14.non_numeric_timeout_refused"); REACH("not_a_number"); }
	else if (t.valuedouble < 0.001) { CHECK(ns == 0 && resp == &ERR, "C14.timeout_below_one_millisecond_refused"); REACH("too_small"); }
	else if (t.valuedouble > 18446744073.0) { CHECK(ns == 0 && resp == &ERR, "C14.timeout_beyond_uint64_ns_refused"); REACH("too_large"); }
	else {
		CHECK(resp == 0 && ns >= 1000000u - 1, "C14.accepted_timeout_is_at_least_one_millisecond");
		/* the deadline is the requested seconds scaled to ns, truncated (one FP multiply; |error| < 1 ns + 1 ulp) */
		CHECK(ns == (uint64_t)(t.valuedouble * 1000000000.0), "C14.deadline_equals_requested_seconds");
		REACH("accepted");
	}
	WITNESS_END();
}

/* C14.huge_timeout: the same function without the upper bound: conversion of a double >= 2^64 to uint64_t is undefined */
void harness_timeout_huge(void)
{
	cJSON t; cJSON *resp = 0;
	t.type = cJSON_Number;
	t.valuedouble = nd_double();
	__CPROVER_assume(!(t.valuedouble != t.valuedouble));
	uint64_t ns = get_timeout_in_nsec(0, 0, &t, &resp, 5);
	(void)ns;
	WITNESS_END();
}
