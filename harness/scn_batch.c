/* C14 - a reply and the expiry of the same routed request harvested in ONE batch of readiness events:
 * the real linux/eventloop_epoll.c (handle_events, add, remove) and the real linux/timer_linux.c under the real
 * router.c / element.c. epoll and timerfd system calls are stubs; the registration table of the stub is what the
 * kernel would hold. */
#define SCN_REAL_TIMERS 1
#include "scn.h"
#include "hash_abs.h"
#include <sys/epoll.h>
#include <sys/timerfd.h>
#include <errno.h>

const cJSON *credentials_ok(const char *u, char *p) { (void)u; (void)p; return 0; }
cJSON *change_password(const struct peer *p, const cJSON *r, const char *u, char *pw) { (void)p; (void)r; (void)u; (void)pw; return 0; }

/* ---- kernel stubs */
#define MAXREG 4
static struct { int fd; void *ptr; int live; } REG[MAXREG]; static int nreg;
int verif_epoll_ctl(int epfd, int op, int fd, struct epoll_event *ev)
{
	(void)epfd;
	if (op == EPOLL_CTL_ADD) { __CPROVER_assume(nreg < MAXREG); REG[nreg].fd = fd; REG[nreg].ptr = ev->data.ptr; REG[nreg].live = 1; nreg++; return 0; }
	for (int i = 0; i < nreg; i++) if (REG[i].fd == fd && REG[i].live) { REG[i].live = 0; return 0; }
	return -1;
}
int verif_epoll_create(int n) { (void)n; return 3; }
int verif_epoll_wait(int epfd, struct epoll_event *evs, int max, int to) { (void)epfd; (void)evs; (void)max; (void)to; return 0; }
static int next_fd = 20, fds_open;
int verif_timerfd_create(int clock, int flags) { (void)clock; (void)flags; fds_open++; return next_fd++; }
int verif_timerfd_settime(int fd, int flags, const struct itimerspec *n, struct itimerspec *o) { (void)fd; (void)flags; (void)n; (void)o; return 0; }
int verif_close(int fd) { (void)fd; return 0; }
int socket_close(socket_type s) { (void)s; fds_open--; return 0; }
cjet_ssize_t socket_read(socket_type s, void *buf, size_t n) { (void)s; (void)buf; return (cjet_ssize_t)n; }   /* the timer did expire */

#define epoll_ctl verif_epoll_ctl
#define epoll_create verif_epoll_create
#define epoll_wait verif_epoll_wait
#define close verif_close
#include "linux/eventloop_epoll.c"
#undef close
#define timerfd_create verif_timerfd_create
#define timerfd_settime verif_timerfd_settime
#include "linux/timer_linux.c"

static struct peer O, A;
extern cJSON *model_parse_result;
static int dispatch(struct peer *p, cJSON *req) { model_parse_result = req; return parse_message("x", 1, p); }

/* the owner's connection: its readiness event delivers the owner's reply to the dispatcher */
static struct io_event OWNER_EV; static cJSON *pending_reply; static int owner_reads;
#ifndef OWN_EVENT
#define OWN_EVENT 0
#endif
#ifndef BATCH_KIND
#define BATCH_KIND 0          /* 0: the owner replies; 1: the owner's connection ends; 2: the caller's connection ends */
#endif
static struct eventloop_epoll EPOLL;
static int own_removed;
static enum eventloop_return owner_read(struct io_event *ev)
{
	(void)ev; owner_reads++;
#if BATCH_KIND == 0
	if (pending_reply) { cJSON *m = pending_reply; pending_reply = 0; dispatch(&O, m); }
#else
	/* the connection's own readiness registration goes away with it: before the peer bookkeeping (the websocket close path)
	   or after it (OWN_EVENT 1 / 2; 0: the transport keeps it, as a listener-less test transport would) */
#if OWN_EVENT == 1
	EPOLL.loop.remove(EPOLL.loop.this_ptr, ev);
#endif
#if BATCH_KIND == 1
	free_peer_resources(&O); dead_peer = &O;          /* what the close path of every transport ends in */
#else
	free_peer_resources(&A); dead_peer = &A;          /* (the event belongs to the caller's connection in this variant) */
#endif
#if OWN_EVENT == 2
	EPOLL.loop.remove(EPOLL.loop.this_ptr, ev);
#endif
#if OWN_EVENT == 3
	/* (the error path of the buffered socket's read function: the connection is torn down inside it, the function itself
	   reports EL_CONTINUE_LOOP; the loop must notice that the registration is gone before it looks at EPOLLOUT) */
	EPOLL.loop.remove(EPOLL.loop.this_ptr, ev); own_removed = 1;
	return EL_CONTINUE_LOOP;
#elif OWN_EVENT
	return EL_EVENT_REMOVED;
#endif
#endif
	return EL_CONTINUE_LOOP;
}
static enum eventloop_return owner_write(struct io_event *ev) { (void)ev; CHECK(!own_removed, "C05.no_callback_through_a_removed_registration"); return EL_CONTINUE_LOOP; }

void harness_batch(void)
{
	__CPROVER_assume(element_hashtable_create() == 0);
	EPOLL.loop.this_ptr = &EPOLL; EPOLL.loop.add = eventloop_epoll_add; EPOLL.loop.remove = eventloop_epoll_remove;
	__CPROVER_assume(eventloop_epoll_init(&EPOLL) == 0);
	mkpeer(&O, true); mkpeer(&A, true);
	O.loop = &EPOLL.loop; A.loop = &EPOLL.loop;
	OWNER_EV.sock = 9; OWNER_EV.read_function = owner_read; OWNER_EV.write_function = owner_write; OWNER_EV.loop = &EPOLL.loop;
	__CPROVER_assume(eventloop_epoll_add(&EPOLL, &OWNER_EV) == EL_CONTINUE_LOOP);      /* registration 0: the connection */
	int v = (int)nd_range(0, 999);
	scn_build_begin();
	cJSON *add = mkreq("add", 1, path_params("s", 1));
	cJSON *set = mkreq("set", 7, path_params("s", v));
	scn_build_end();
	__CPROVER_assume(dispatch(&O, add) == 0);
	reset_log();
	__CPROVER_assume(dispatch(&A, set) == 0);
	__CPROVER_assume(nlog == 1 && LOG[0].kind == K_ROUTED && nreg == 2 && REG[1].live);
	void *timer_ev = REG[1].ptr;                       /* what the kernel reports for the request's timerfd */
	char routed_id[20]; cpystr(routed_id, sizeof(routed_id), LOG[0].id_str); (void)routed_id;
	scn_build_begin();
	cJSON *reply = cJSON_CreateObject();
	cJSON_AddItemToObject(reply, "id", cJSON_CreateString(LOG[0].id_str));
	cJSON_AddItemToObject(reply, "result", mknumber(3));
	scn_build_end();
#if BATCH_KIND == 0
	pending_reply = reply;
#else
	cJSON_Delete(reply);
#endif
	/* one harvested batch: the owner's socket is readable (reply) AND the request's timer expired */
	struct epoll_event events[2];
#if REPLY_FIRST
	events[0].events = EPOLLIN | (OWN_EVENT == 3 ? EPOLLOUT : 0); events[0].data.ptr = &OWNER_EV;
	events[1].events = EPOLLIN; events[1].data.ptr = timer_ev;
#else
	events[0].events = EPOLLIN; events[0].data.ptr = timer_ev;
	events[1].events = EPOLLIN; events[1].data.ptr = &OWNER_EV;
#endif
	reset_log();
	enum eventloop_return r = handle_events(&EPOLL, 2, events);
	CHECK(r == EL_CONTINUE_LOOP, "C14.batch_keeps_loop_running");
	int answers = 0; for (int i = 0; i < nlog; i++) if (LOG[i].kind == K_RESPONSE && LOG[i].to == &A && LOG[i].id_int == 7) answers++;
#if BATCH_KIND == 0
	CHECK(answers == 1, "C14.exactly_one_answer_when_reply_and_expiry_are_ready_together");
#elif BATCH_KIND == 1
	/* expiry and the owner's disconnect together: one final answer (timeout or shutdown error), never two, never none */
	CHECK(answers == 1, "C14.exactly_one_answer_when_expiry_and_owner_disconnect_are_ready_together");
	{ struct sent *a = last_of(&A, K_RESPONSE); CHECK(a && a->is_error && !a->has_result, "C03.unanswered_request_ends_in_an_error"); }
	CHECK(element_table_get("s") == 0, "C05.owned_elements_disappear");
#else
	/* expiry and the caller's disconnect together: the timeout answer only if the expiry was processed first, and
	   nothing is sent through the released connection (C05.no_send_through_released_transport in the transport) */
	CHECK(answers == (REPLY_FIRST ? 0 : 1), "C14.timeout_answer_only_while_the_caller_is_connected");
	dead_peer = 0;
	{ scn_build_begin(); cJSON *late = cJSON_CreateObject(); cJSON_AddItemToObject(late, "id", cJSON_CreateString(routed_id)); cJSON_AddItemToObject(late, "result", mknumber(3)); scn_build_end();
	  dead_peer = &A; int lr = dispatch(&O, late); CHECK(lr >= 0, "C05.reply_for_departed_caller_is_harmless"); }
#endif
	CHECK(owner_reads == 1, "C14.owner_event_processed_once");
	CHECK(fds_open == 0 && !REG[1].live, "C07.timer_descriptor_closed_and_deregistered");
	WITNESS_END();
}
