/* Scenario obligations for C01 / C11 / C04 / C02 over the real element.c fetch.c table.c peer.c response.c
 * parse.c (dispatcher) router.c. Concrete call skeletons, symbolic data and faults. */
#include "scn.h"
#include "hash_abs.h"

/* credential back end is not part of these scenarios */
const cJSON *credentials_ok(const char *u, char *p) { (void)u; (void)p; return 0; }
cJSON *change_password(const struct peer *p, const cJSON *r, const char *u, char *pw) { (void)p; (void)r; (void)u; (void)pw; return 0; }

/* element_table_put: the real one (table.c is built with -Delement_table_put=real_element_table_put) behind a
   symbolic refusal. C17 proves that the real put refuses exactly when the probe window of the key's home bucket
   is full, which depends on hash collisions only; "refuse" here stands for such a table state. */
int real_element_table_put(const char *path, void *value);
static int table_refuses;
int element_table_put(const char *path, void *value)
{
	if (table_refuses) return HASHTABLE_FULL;
	return real_element_table_put(path, value);
}

static struct peer A, B, C;

static int dispatch(struct peer *p, cJSON *req)
{
	extern cJSON *model_parse_result;
	model_parse_result = req;
	return parse_message("x", 1, p);
}
static void fetch_all(struct peer *p, const char *fid, int reqid)
{
	scn_build_begin();
	cJSON *req = mkreq("fetch", reqid, fetch_params(fid));
	scn_build_end();
	int r = dispatch(p, req);
	__CPROVER_assume(r == 0);
}
static int response_ok(const struct peer *p) { struct sent *s = last_of(p, K_RESPONSE); return s && s->has_result && !s->is_error; }

/* ================================================================== add: B and C subscribe to everything, A adds "a"
 * symbolic: the value, which subscriber's send path fails (none / B / C), whether the path index refuses */
void harness_add_notify(void)
{
	__CPROVER_assume(element_hashtable_create() == 0);
	mkpeer(&A, true); mkpeer(&B, true); mkpeer(&C, true);
	fetch_all(&B, "fb", 1);
	fetch_all(&C, "fc", 2);
	CHECK(count_responses(&B) == 1 && count_responses(&C) == 1 && response_ok(&B) && response_ok(&C), "C02.fetch_answered_once");
	int v = (int)nd_range(0, 999);
	int who = (int)nd_range(0, 2);
	failing_peer = who == 1 ? &B : who == 2 ? &C : 0;
	table_refuses = nd_bool();
	reset_log();
	scn_build_begin();
	cJSON *req = mkreq("add", 3, path_params("a", v));
	scn_build_end();
	/* the faulty step is driven at the handler (what parse.c's dispatcher calls for "add"); the dispatcher's own
	   one-response discipline is C02.dispatch_once */
	cJSON *resp = add_element_to_peer(&A, req);
	CHECK(resp != 0, "C02.add_with_id_gets_a_response");
	int ok = resp && cJSON_GetObjectItem(resp, "result") != 0;
	int is_err = resp && cJSON_GetObjectItem(resp, "error") != 0;
	CHECK(ok != is_err, "C02.response_has_result_xor_error");
	int b_saw = count_events(&B, 'a', "a"), c_saw = count_events(&C, 'a', "a");
	void *in_index = element_table_get("a");
	CHECK(ok == (in_index != 0), "C04.add_succeeds_iff_element_now_exists");
	if (!failing_peer && !table_refuses) {
#ifdef DBG
		CHECK(nlog == 2, "C01.dbg_nlog2"); CHECK(LOG[1].to == &C, "C01.dbg_to"); CHECK(LOG[1].kind == K_EVENT, "C01.dbg_kind"); CHECK(LOG[1].event == 'a', "C01.dbg_event"); CHECK(LOG[1].path[0] == 'a', "C01.dbg_path");
		CHECK(sends == 2, "C01.dbg_sends2"); CHECK(LOG[1].path[0] == 0, "C01.dbg_path_empty"); CHECK(LOG[0].path[0] == 'a', "C01.dbg_path0"); CHECK(LOG[1].has_value, "C01.dbg_hasvalue1"); CHECK(LOG[1].id_str[1] == 'c', "C01.dbg_idc");
#endif
		CHECK(ok && b_saw == 1 && c_saw == 1, "C01.add_reaches_every_subscriber_exactly_once");
		struct sent *eb = last_of(&B, K_EVENT);
		if (eb) CHECK(eb->has_value && eb->value_int == v && eb->id_type == cJSON_String && eb->id_str[0] == 'f' && eb->id_str[1] == 'b', "C01.add_event_carries_value_and_fetch_id");
		REACH("add_all_healthy");
	}
	/* nobody may be told about an element that does not come to exist */
	if (!in_index) { CHECK(b_saw == 0 && c_saw == 0, "C01.no_add_event_for_element_that_is_refused"); REACH("add_refused"); }
	CHECK(b_saw <= 1 && c_saw <= 1, "C01.no_duplicate_add_event");
	/* a subscriber with a failing send path harms only itself */
	if (failing_peer == &B && !table_refuses) { CHECK(c_saw == 1, "C11.healthy_subscriber_still_notified_of_add"); CHECK(in_index != 0, "C11.add_takes_effect_despite_failing_subscriber"); REACH("b_fails"); }
	if (failing_peer == &C && !table_refuses) { CHECK(b_saw == 1, "C11.healthy_subscriber_still_notified_of_add"); CHECK(in_index != 0, "C11.add_takes_effect_despite_failing_subscriber"); }
	WITNESS_END();
}

/* ================================================================== change / remove with two subscribers */
void harness_change_remove(void)
{
	__CPROVER_assume(element_hashtable_create() == 0);
	mkpeer(&A, true); mkpeer(&B, true); mkpeer(&C, true);
	fetch_all(&B, "fb", 1);
	fetch_all(&C, "fc", 2);
	scn_build_begin();
	cJSON *add = mkreq("add", 3, path_params("a", 5));
	scn_build_end();
	__CPROVER_assume(dispatch(&A, add) == 0);
	__CPROVER_assume(element_table_get("a") != 0);
	int v = (int)nd_range(0, 999);
	int who = (int)nd_range(0, 2);
	failing_peer = who == 1 ? &B : who == 2 ? &C : 0;
#ifdef DO_REMOVE
	int do_remove = 1;               /* the operation is fixed per obligation (a symbolic choice of operation defeats constant propagation) */
#else
	int do_remove = 0;
#endif
#ifdef NOT_OWNER
	int by_owner = 0;                /* the requester is fixed per obligation (a symbolic peer pointer makes every list walk symbolic) */
#else
	int by_owner = 1;
#endif
	struct peer *actor = by_owner ? &A : &B;
	reset_log();
	scn_build_begin();
	cJSON *req = do_remove ? mkreq("remove", 4, path_params("a", NO_VALUE)) : mkreq("change", 4, path_params("a", v));
	scn_build_end();
	if (!by_owner && failing_peer == &B) failing_peer = 0;   /* the actor's own send path is healthy in this scenario */
	cJSON *resp = do_remove ? remove_element_from_peer(actor, req) : change_state(actor, req);
	CHECK(resp != 0, "C02.request_with_id_gets_a_response");
	int ok = resp && cJSON_GetObjectItem(resp, "result") != 0;
	int is_err = resp && cJSON_GetObjectItem(resp, "error") != 0;
	CHECK(ok != is_err, "C02.response_has_result_xor_error");
	struct element *e = element_table_get("a");
	char evc = do_remove ? 'r' : 'c';
	int b_saw = count_events(&B, evc, "a"), c_saw = count_events(&C, evc, "a");
	if (!by_owner) {
		CHECK(!ok, "C04.only_owner_may_change_or_remove");
		CHECK(e != 0 && e->value && e->value->valueint == 5, "C04.refused_request_changes_nothing");
		CHECK(count_kind(&B, K_EVENT) == 0 && count_kind(&C, K_EVENT) == 0, "C01.no_event_for_refused_request");
		CHECK(is_err, "C04.refused_request_answered_with_error");
		REACH("not_owner");
	} else {
		if (is_err) CHECK(e != 0 && e->value && e->value->valueint == 5, "C04.request_answered_with_error_changed_nothing");
		if (do_remove) CHECK(e == 0, "C04.owner_remove_takes_effect");
		else CHECK(e != 0 && e->value && e->value->valueint == v, "C04.owner_change_takes_effect");
		if (!failing_peer) {
			CHECK(ok, "C04.owner_request_succeeds");
			CHECK(b_saw == 1 && c_saw == 1, "C01.change_remove_reaches_every_subscriber_exactly_once");
			struct sent *eb = last_of(&B, K_EVENT);
			if (eb && !do_remove) CHECK(eb->has_value && eb->value_int == v, "C01.change_event_carries_new_value");
			REACH("owner_healthy");
		}
		if (failing_peer == &B) { CHECK(c_saw == 1, "C11.healthy_subscriber_still_notified_of_change_remove"); REACH("b_fails"); }
		if (failing_peer == &C) CHECK(b_saw == 1, "C11.healthy_subscriber_still_notified_of_change_remove");
		CHECK(b_saw <= 1 && c_saw <= 1, "C01.no_duplicate_event");
	}
	WITNESS_END();
}

/* ================================================================== fetch after add: adds precede the response; unfetch ends delivery */
void harness_fetch_order(void)
{
	__CPROVER_assume(element_hashtable_create() == 0);
	mkpeer(&A, true); mkpeer(&B, true);
	int v = (int)nd_range(0, 999);
	scn_build_begin();
	cJSON *add = mkreq("add", 1, path_params("a", v));
	scn_build_end();
	__CPROVER_assume(dispatch(&A, add) == 0);
	reset_log();
	fetch_all(&B, "fb", 2);
	/* exactly one add for the existing element, and it precedes the fetch response */
	CHECK(nlog == 2 && LOG[0].kind == K_EVENT && LOG[0].event == 'a' && LOG[0].to == &B && LOG[0].value_int == v && LOG[1].kind == K_RESPONSE && LOG[1].to == &B && LOG[1].has_result,
	      "C01.adds_for_existing_matches_precede_fetch_response");
	/* a second fetch with the same id is refused and reports nothing */
	reset_log();
	scn_build_begin();
	cJSON *again = mkreq("fetch", 3, fetch_params("fb"));
	scn_build_end();
	__CPROVER_assume(dispatch(&B, again) == 0);
	CHECK(nlog == 1 && LOG[0].kind == K_RESPONSE && LOG[0].is_error, "C01.duplicate_fetch_id_refused_without_events");
	CHECK(LOG[0].id_type == cJSON_Number && LOG[0].id_int == 3 && LOG[0].to == &B, "C02.error_response_carries_the_request_id");
	/* unfetch, then a change: nothing is delivered for the fetch any more */
#ifdef DO_UNFETCH
	int do_unfetch = 1;
#else
	int do_unfetch = 0;
#endif
	if (do_unfetch) {
		scn_build_begin();
		cJSON *un = mkreq("unfetch", 4, fetch_params("fb"));
		scn_build_end();
		reset_log();
		__CPROVER_assume(dispatch(&B, un) == 0);
		CHECK(nlog == 1 && LOG[0].kind == K_RESPONSE && LOG[0].has_result, "C02.unfetch_answered_once");
	}
	reset_log();
	scn_build_begin();
	cJSON *chg = mkreq("change", 5, path_params("a", 7));
	scn_build_end();
	__CPROVER_assume(dispatch(&A, chg) == 0);
	if (do_unfetch) { CHECK(count_kind(&B, K_EVENT) == 0, "C01.nothing_delivered_after_unfetch"); REACH("unfetched"); }
	else CHECK(count_events(&B, 'c', "a") == 1, "C01.change_reaches_subscriber");
	WITNESS_END();
}

/* ================================================================== two subscribers, the FIRST one leaves: the second keeps getting events
 * (the element's table of subscribed fetches then has a hole in front of the remaining entry) */
void harness_first_subscriber_leaves(void)
{
	__CPROVER_assume(element_hashtable_create() == 0);
	mkpeer(&A, true); mkpeer(&B, true); mkpeer(&C, true);
	int v = (int)nd_range(0, 999);
	scn_build_begin();
	cJSON *add = mkreq("add", 1, path_params("a", 5));
	scn_build_end();
	__CPROVER_assume(dispatch(&A, add) == 0);
	fetch_all(&B, "fb", 2);
	fetch_all(&C, "fc", 3);
#ifdef LEAVE_BY_DISCONNECT
	free_peer_resources(&B);
	dead_peer = &B;
#else
	scn_build_begin();
	cJSON *un = mkreq("unfetch", 4, fetch_params("fb"));
	scn_build_end();
	__CPROVER_assume(dispatch(&B, un) == 0);
#endif
	reset_log();
	scn_build_begin();
	cJSON *chg = mkreq("change", 5, path_params("a", v));
	cJSON *rem = mkreq("remove", 6, path_params("a", NO_VALUE));
	scn_build_end();
	__CPROVER_assume(dispatch(&A, chg) == 0);
	CHECK(count_events(&C, 'c', "a") == 1 && count_kind(&B, K_EVENT) == 0, "C01.remaining_subscriber_gets_change_after_another_left");
	struct sent *ec = last_of(&C, K_EVENT);
	if (ec) CHECK(ec->value_int == v, "C01.change_event_carries_new_value");
	__CPROVER_assume(dispatch(&A, rem) == 0);
	CHECK(count_events(&C, 'r', "a") == 1 && count_kind(&B, K_EVENT) == 0, "C01.remaining_subscriber_gets_remove_after_another_left");
	/* a new subscriber reuses the hole and sees the re-added element once */
	reset_log();
	scn_build_begin();
	cJSON *add2 = mkreq("add", 7, path_params("a", 9));
	scn_build_end();
	__CPROVER_assume(dispatch(&A, add2) == 0);
	CHECK(count_events(&C, 'a', "a") == 1, "C01.add_reaches_every_subscriber_exactly_once");
	WITNESS_END();
}

/* ================================================================== more subscribers than the initial table of subscribed fetches holds (it has to grow) */
static struct peer D;
void harness_table_growth(void)
{
	__CPROVER_assume(element_hashtable_create() == 0);
	mkpeer(&A, true); mkpeer(&B, true); mkpeer(&C, true); mkpeer(&D, true);
	int v = (int)nd_range(0, 999);
#ifdef ADD_FIRST
	scn_build_begin(); cJSON *add0 = mkreq("add", 1, path_params("a", 5)); scn_build_end();
	__CPROVER_assume(dispatch(&A, add0) == 0);
#endif
	fetch_all(&B, "fb", 2); fetch_all(&C, "fc", 3); fetch_all(&D, "fd", 4);
	fetch_all(&B, "f2", 5);                             /* a second fetch of the same peer: 4 subscriptions, initial table size 2 */
#ifndef ADD_FIRST
	scn_build_begin(); cJSON *add0 = mkreq("add", 1, path_params("a", 5)); scn_build_end();
	reset_log();
	__CPROVER_assume(dispatch(&A, add0) == 0);
	CHECK(count_events(&B, 'a', "a") == 2 && count_events(&C, 'a', "a") == 1 && count_events(&D, 'a', "a") == 1, "C01.add_reaches_every_subscription_exactly_once");
#endif
	struct element *e = element_table_get("a");
	CHECK(e && e->fetch_table_size >= 4, "C01.subscription_table_grew");
	reset_log();
	scn_build_begin(); cJSON *chg = mkreq("change", 6, path_params("a", v)); scn_build_end();
	__CPROVER_assume(dispatch(&A, chg) == 0);
	CHECK(count_events(&B, 'c', "a") == 2 && count_events(&C, 'c', "a") == 1 && count_events(&D, 'c', "a") == 1, "C01.change_reaches_every_subscription_exactly_once");
	struct sent *ed = last_of(&D, K_EVENT);
	if (ed) CHECK(ed->value_int == v && ed->id_str[0] == 'f' && ed->id_str[1] == 'd', "C01.event_carries_value_and_fetch_id");
	WITNESS_END();
}

#ifdef SCN_PROBE
void harness_min(void)
{
	__CPROVER_assume(element_hashtable_create() == 0);
	mkpeer(&A, true);
	scn_build_begin();
	int v = (int)nd_range(0, 999);
	cJSON *add = mkreq("add", 1, path_params("a", v));
	scn_build_end();
	int r = dispatch(&A, add);
	CHECK(r == 0, "C02.min");
	WITNESS_END();
}
#endif
#ifdef SCN_PROBE
void harness_probe2(void)
{
	__CPROVER_assume(element_hashtable_create() == 0);
	static int x;
	int r = real_element_table_put("a", &x);
	__CPROVER_assert(r == 0, "PROBE put ok");
	void *g = element_table_get("a");
	__CPROVER_assert(g == &x, "PROBE get ok");
}
#endif
