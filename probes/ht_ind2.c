#include <assert.h>
#include <stdint.h>
#include <stdlib.h>
#define NKEYS 8   /* keys 1..NKEYS; universe larger than... */
static uint32_t H[NKEYS+1];
static inline uint32_t abs_hash32(uint32_t key, unsigned int order){ (void)order; return H[key]; }
#define hs_hash32 real_hs_hash32
#include "hashtable.h"
#undef hs_hash32
#define hs_hash32 abs_hash32
DECLARE_HASHTABLE_UINT32(T, ORDER, 1)
#define SIZE (1u<<ORDER)
#define INVALID 0xffffffffu
uint32_t nondet_u32(void); int nondet_int(void); void *nondet_ptr(void);
static struct hashtable_uint32_t TABLE[SIZE];
void *cjet_malloc(size_t s){ (void)s; return TABLE;}
void cjet_free(void *p){(void)p;}

static int valid_key(uint32_t k){ return k >= 1 && k <= NKEYS; }
/* representation invariant */
static int inv(const struct hashtable_uint32_t *t)
{
	for (uint32_t h = 0; h < SIZE; h++) {
		if (SIZE < 32 && (t[h].hop_info >> SIZE) != 0) return 0;
		for (uint32_t d = 0; d < 32 && d < SIZE; d++) {
			if (t[h].hop_info & (1u << d)) {
				uint32_t s = (h + d) & (SIZE - 1);
				if (!valid_key(t[s].key)) return 0;
				if (H[t[s].key] != h) return 0;
			}
		}
	}
	for (uint32_t s = 0; s < SIZE; s++) {
		uint32_t k = t[s].key;
		if (k == INVALID) { if (t[s].value.vals[0] != 0) return 0; continue; }
		if (!valid_key(k)) return 0;
		uint32_t h = H[k];
		uint32_t d = (s - h) & (SIZE - 1);
		if (!(t[h].hop_info & (1u << d))) return 0;   /* no stale slots */
		for (uint32_t s2 = 0; s2 < s; s2++) if (t[s2].key == k) return 0; /* unique */
	}
	return 1;
}
static int alookup(const struct hashtable_uint32_t *t, uint32_t k, void **v)
{
	for (uint32_t s = 0; s < SIZE; s++) if (t[s].key == k) { *v = t[s].value.vals[0]; return 1; }
	return 0;
}
static struct hashtable_uint32_t PRE[SIZE];
void harness(void)
{
	for (int i=1;i<=NKEYS;i++){ H[i]=nondet_u32(); __CPROVER_assume(H[i] < SIZE);}
	for (uint32_t s=0;s<SIZE;s++){ TABLE[s].hop_info=nondet_u32(); TABLE[s].key=nondet_u32(); TABLE[s].value.vals[0]=nondet_ptr(); }
	__CPROVER_assume(inv(TABLE));
	for (uint32_t s=0;s<SIZE;s++) PRE[s]=TABLE[s];
	uint32_t k = nondet_u32(); __CPROVER_assume(valid_key(k));
	uint32_t q = nondet_u32(); __CPROVER_assume(valid_key(q));
	void *pv=0,*qv=0; int phas = alookup(PRE,k,&pv); int qhas = alookup(PRE,q,&qv);
	struct value_T v, out; v.vals[0] = nondet_ptr();
#if MODE==0
	int r = HASHTABLE_PUT(T, TABLE, k, v, &out);
	assert(inv(TABLE));
	void *nv=0; int nhas = alookup(TABLE,q,&nv);
	if (phas) { assert(r==HASHTABLE_SUCCESS); assert(out.vals[0]==pv); }
	else assert(out.vals[0]==0);
	if (r==HASHTABLE_SUCCESS) { if (q==k) { assert(nhas && nv==v.vals[0]); } else { assert(nhas==qhas && nv==qv); } }
	else { assert(r==HASHTABLE_FULL); assert(nhas==qhas && nv==qv);
	       for (uint32_t d=0; d<add_range_T; d++) assert(PRE[(H[k]+d)&(SIZE-1)].key != INVALID); }
#elif MODE==1
	int r = HASHTABLE_GET(T, TABLE, k, &out);
	if (phas) { assert(r==HASHTABLE_SUCCESS && out.vals[0]==pv);} else assert(r==HASHTABLE_INVALIDENTRY);
	for (uint32_t s=0;s<SIZE;s++) { assert(PRE[s].key==TABLE[s].key && PRE[s].hop_info==TABLE[s].hop_info && PRE[s].value.vals[0]==TABLE[s].value.vals[0]); }
#else
	int r = HASHTABLE_REMOVE(T, TABLE, k, &out);
	assert(inv(TABLE));
	void *nv=0; int nhas = alookup(TABLE,q,&nv);
	if (phas) { assert(r==HASHTABLE_SUCCESS && out.vals[0]==pv);} else assert(r==HASHTABLE_INVALIDENTRY);
	if (q==k) assert(!nhas); else assert(nhas==qhas && nv==qv);
#endif
#ifdef WITNESS
	assert(0);
#endif
}
