#include <assert.h>
#include "linux/linux_io.c"
int nondet_int(void);
/* syscalls */
static int acc_calls;
int accept(int fd, struct sockaddr *a, socklen_t *l){ (void)fd;(void)a;(void)l; acc_calls++; if (acc_calls > 1) { errno = EAGAIN; return -1; } errno = nondet_int(); return -1; }
void harness_accept(void)
{
	struct io_event ev; ev.sock = 3;
	enum eventloop_return r = accept_common(&ev, 0);
	int e = errno;
	(void)e;
	/* first accept failed with errno E (symbolic) */
	__CPROVER_assert(r != EL_ABORT_LOOP, "C11.accept_transient_errors_continue");
}
void harness_local(void)
{
	struct sockaddr_storage a;
	bool r = is_localhost(&a);
	if (a.ss_family == AF_UNIX) __CPROVER_assert(r, "C08.unix_is_local");
}
