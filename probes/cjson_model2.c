/* Bounded cJSON model for CBMC: same API/struct as json/cJSON.h, static node pool, no recursion deeper than tree depth,
   strings are duplicated into a static char pool. Allocation failure is injected through model_alloc_fails(). */
#include <string.h>
#include <stdlib.h>
#include "json/cJSON.h"
#define POOLN 64
#define STRN 1024
static int live_nodes;
int model_alloc_fails(void);
int model_live_nodes(void){ return live_nodes; }
static cJSON *new_item(int type){ if (model_alloc_fails()) return 0; cJSON *c=malloc(sizeof(cJSON)); __CPROVER_assume(c!=0); live_nodes++; c->next=c->prev=c->child=0; c->type=type; c->valuestring=0; c->valueint=0; c->valuedouble=0; c->string=0; return c; }
static char *dupstr(const char *s){ if (model_alloc_fails()) return 0; size_t n=strlen(s)+1; char *d=malloc(n); __CPROVER_assume(d!=0); for(size_t i=0;i<n;i++) d[i]=s[i]; return d; }
void cJSON_InitHooks(cJSON_Hooks *h){(void)h;}
cJSON *cJSON_CreateObject(void){ return new_item(cJSON_Object);} cJSON *cJSON_CreateArray(void){ return new_item(cJSON_Array);} cJSON *cJSON_CreateTrue(void){ return new_item(cJSON_True);}
cJSON *cJSON_CreateNumber(double d){ cJSON *c=new_item(cJSON_Number); if(c){c->valuedouble=d; c->valueint=(int)d;} return c; }
cJSON *cJSON_CreateString(const char *s){ cJSON *c=new_item(cJSON_String); if(c){ c->valuestring=dupstr(s); if(!c->valuestring){ cJSON_Delete(c); return 0;} } return c; }
static void free_node(cJSON *c){ live_nodes--; (void)c; }
void cJSON_Delete(cJSON *c){ /* depth<=4 explicit */
	while(c){ cJSON *n=c->next; for(cJSON *c1=c->child;c1;){ cJSON *n1=c1->next; for(cJSON *c2=c1->child;c2;){ cJSON *n2=c2->next; for(cJSON *c3=c2->child;c3;){ cJSON *n3=c3->next; __CPROVER_assert(c3->child==0,"depth"); free_node(c3); c3=n3;} free_node(c2); c2=n2;} free_node(c1); c1=n1;} free_node(c); c=n; } }
static void append(cJSON *parent, cJSON *item){ cJSON *c=parent->child; if(!c){parent->child=item; item->prev=item;} else { cJSON *last=c->prev; last->next=item; item->prev=last; c->prev=item; } item->next=0; }
cJSON_bool cJSON_AddItemToArray(cJSON *a, cJSON *i){ if(!a||!i) return 0; append(a,i); return 1; }
cJSON_bool cJSON_AddItemToObject(cJSON *o, const char *k, cJSON *i){ if(!o||!k||!i) return 0; char *kk=dupstr(k); if(!kk) return 0; i->string=kk; append(o,i); return 1; }
cJSON *cJSON_AddTrueToObject(cJSON *o, const char *k){ cJSON *t=cJSON_CreateTrue(); if(t && cJSON_AddItemToObject(o,k,t)) return t; if(t) cJSON_Delete(t); return 0; }
static int ci_eq(const char *a,const char *b){ for(;;a++,b++){ char x=*a,y=*b; if(x>='A'&&x<='Z')x+=32; if(y>='A'&&y<='Z')y+=32; if(x!=y) return 0; if(!x) return 1; } }
cJSON *cJSON_GetObjectItem(const cJSON *o, const char *k){ if(!o||!k) return 0; for(cJSON *c=o->child;c;c=c->next) if(c->string && ci_eq(c->string,k)) return c; return 0; }
int cJSON_GetArraySize(const cJSON *a){ int n=0; if(!a) return 0; for(cJSON *c=a->child;c;c=c->next) n++; return n; }
cJSON *cJSON_GetArrayItem(const cJSON *a,int i){ if(!a||i<0) return 0; cJSON *c=a->child; while(c&&i>0){c=c->next;i--;} return c; }
static cJSON *dup1(const cJSON *s){ cJSON *d=new_item(s->type); if(!d) return 0; d->valueint=s->valueint; d->valuedouble=s->valuedouble; if(s->valuestring){ d->valuestring=dupstr(s->valuestring); if(!d->valuestring){free_node(d);return 0;} } if(s->string){ d->string=dupstr(s->string); if(!d->string){free_node(d);return 0;} } return d; }
cJSON *cJSON_Duplicate(const cJSON *s, cJSON_bool rec){ if(!s) return 0; cJSON *d=dup1(s); if(!d||!rec) return d;
	for(cJSON *c1=s->child;c1;c1=c1->next){ cJSON *d1=dup1(c1); if(!d1){cJSON_Delete(d);return 0;} append(d,d1);
		for(cJSON *c2=c1->child;c2;c2=c2->next){ cJSON *d2=dup1(c2); if(!d2){cJSON_Delete(d);return 0;} append(d1,d2); __CPROVER_assert(c2->child==0,"dup depth"); } }
	return d; }
/* rendering: remember the tree (deep copy is unnecessary: callers delete after send; we snapshot a duplicate without failure injection) */
cJSON *model_last_printed;
char *cJSON_PrintUnformatted(const cJSON *c){ if (model_alloc_fails()) return 0; extern void *cjet_malloc(size_t); char *r=cjet_malloc(2); if(!r) return 0; r[0]='J'; r[1]=0; model_last_printed=(cJSON*)c; return r; }
char *cJSON_Print(const cJSON *c){ return cJSON_PrintUnformatted(c);} 
cJSON_bool cJSON_ReplaceItemInObject(cJSON *o,const char *k,cJSON *n){(void)o;(void)k;(void)n;return 0;}
cJSON *cJSON_ParseWithOpts(const char *v,const char **e,cJSON_bool r){(void)v;(void)e;(void)r;return 0;}
