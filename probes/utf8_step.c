#include <assert.h>
#include <stdbool.h>
#include <stdint.h>
#include "utf8_checker.c"

uint8_t nondet_u8(void); uint32_t nondet_u32(void); uint64_t nondet_u64(void);

/* reference DFA (RFC 3629), states: 0 START, 1 need1, 2 need2, 3 need3,
   4 E0 (next A0..BF then need1), 5 ED (80..9F then need1), 6 F0 (90..BF then need2), 7 F4 (80..8F then need2), 8 REJECT */
static int ref_step(int st, uint8_t b)
{
	switch (st) {
	case 0:
		if (b <= 0x7F) return 0;
		if (b >= 0xC2 && b <= 0xDF) return 1;
		if (b == 0xE0) return 4;
		if (b == 0xED) return 5;
		if (b >= 0xE1 && b <= 0xEF) return 2;
		if (b == 0xF0) return 6;
		if (b == 0xF4) return 7;
		if (b >= 0xF1 && b <= 0xF3) return 3;
		return 8;
	case 1: return (b >= 0x80 && b <= 0xBF) ? 0 : 8;
	case 2: return (b >= 0x80 && b <= 0xBF) ? 1 : 8;
	case 3: return (b >= 0x80 && b <= 0xBF) ? 2 : 8;
	case 4: return (b >= 0xA0 && b <= 0xBF) ? 1 : 8;
	case 5: return (b >= 0x80 && b <= 0x9F) ? 1 : 8;
	case 6: return (b >= 0x90 && b <= 0xBF) ? 2 : 8;
	case 7: return (b >= 0x80 && b <= 0x8F) ? 2 : 8;
	}
	return 8;
}

/* abstraction: checker state -> ref state; returns -1 if state not in invariant */
static int alpha(const struct cjet_utf8_checker *c)
{
	if (c->next_byte == 1) return (c->start_byte == 0xFF && c->length == 1) ? 0 : -1;
	uint8_t s = c->start_byte;
	if (c->length == 2) { if (c->next_byte == 2 && s >= 0xC2 && s <= 0xDF) return 1; return -1; }
	if (c->length == 3) {
		if (!(s >= 0xE0 && s <= 0xEF)) return -1;
		if (c->next_byte == 2) return s == 0xE0 ? 4 : s == 0xED ? 5 : 2;
		if (c->next_byte == 3) return 1;
		return -1;
	}
	if (c->length == 4) {
		if (!(s >= 0xF0 && s <= 0xF4)) return -1;
		if (c->next_byte == 2) return s == 0xF0 ? 6 : s == 0xF4 ? 7 : 3;
		if (c->next_byte == 3) return 2;
		if (c->next_byte == 4) return 1;
		return -1;
	}
	return -1;
}

void harness_step(void)
{
	struct cjet_utf8_checker c;
	c.start_byte = nondet_u8(); c.length = nondet_u8(); c.next_byte = nondet_u8();
	int st = alpha(&c);
	__CPROVER_assume(st >= 0);
	uint8_t b = nondet_u8();
	bool ok = is_byte_valid(&c, b);
	int st2 = ref_step(st, b);
	assert(ok == (st2 != 8));
	if (ok) assert(alpha(&c) == st2); else assert(alpha(&c) == 0);
#ifdef WITNESS
	assert(0);
#endif
}

void harness_word32(void)
{
	struct cjet_utf8_checker c; cjet_init_checker(&c);
	uint32_t w = nondet_u32();
	bool ok = cjet_is_word_sequence_valid(&c, &w, 1, false);
	int st = 0;
	for (int j = 0; j < 4; j++) { if (st != 8) st = ref_step(st, (w >> (8*j)) & 0xFF); }
	assert(ok == (st != 8));
	if (ok) assert(alpha(&c) == st);
}
void harness_word64(void)
{
	struct cjet_utf8_checker c; cjet_init_checker(&c);
	uint64_t w = nondet_u64();
	bool ok = cjet_is_word64_sequence_valid(&c, &w, 1, false);
	int st = 0;
	for (int j = 0; j < 8; j++) { if (st != 8) st = ref_step(st, (w >> (8*j)) & 0xFF); }
	assert(ok == (st != 8));
	if (ok) assert(alpha(&c) == st);
}
