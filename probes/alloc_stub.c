#include <stdlib.h>
#include "alloc.h"
static long live_blocks;
void *cjet_malloc(size_t size){ void *p = malloc(size); __CPROVER_assume(p != 0); live_blocks++; return p; }
void *cjet_calloc(size_t n, size_t size){ void *p = calloc(n, size); __CPROVER_assume(p != 0); live_blocks++; return p; }
void cjet_free(void *p){ live_blocks--; free(p); }
size_t cjet_get_alloc_size(void){ return (size_t)live_blocks; }
