#include <assert.h>
#include <errno.h>
#include <stdint.h>
#include <string.h>
#include "buffered_socket.c"

int nondet_int(void); size_t nondet_size(void); uint8_t nondet_u8(void);
/* kernel model: accepts an arbitrary prefix of the gathered bytes, would-block, or fails.
   Only the byte at stream position TRACK is remembered (arbitrary-index technique). */
static size_t kpos, TRACK; static uint8_t kbyte; static int kseen;
static int sock_errno;
static void kput(uint8_t b){ if (kpos == TRACK) { kbyte = b; kseen = 1; } kpos++; }
cjet_ssize_t socket_writev_with_prefix(socket_type sock, void *buf, size_t len, struct socket_io_vector *io_vec, unsigned int count)
{
	(void)sock;
	size_t total = len;
	for (unsigned int i = 0; i < count; i++) total += io_vec[i].iov_len;
	if (total == 0) return 0;
	int mode = nondet_int();
	if (mode == 0) { sock_errno = EAGAIN; return -1; }
	if (mode == 1) { sock_errno = EPIPE; return -1; }
	size_t acc = nondet_size();
	__CPROVER_assume(acc >= 1 && acc <= total);
	/* O(1) model: remember only the byte landing on stream position TRACK */
	if (TRACK >= kpos && TRACK < kpos + acc) {
		size_t off = TRACK - kpos;
		if (off < len) { kbyte = ((uint8_t *)buf)[off]; }
		else {
			off -= len;
			if (count > 0 && off < io_vec[0].iov_len) kbyte = ((const uint8_t *)io_vec[0].iov_base)[off];
			else { off -= io_vec[0].iov_len; kbyte = ((const uint8_t *)io_vec[1].iov_base)[off]; }
		}
		kseen = 1;
	}
	kpos += acc;
	return (cjet_ssize_t)acc;
}
cjet_ssize_t socket_read(socket_type sock, void *buf, size_t count){ (void)sock;(void)buf;(void)count; return -1; }
int socket_close(socket_type sock){ (void)sock; return 0; }
enum cjet_system_error get_socket_error(void){ return sock_errno; }
const char *get_socket_error_msg(enum cjet_system_error err){ (void)err; return ""; }
void *cjet_malloc(size_t s){ (void)s; return 0; } void cjet_free(void *p){ (void)p; }
void *jet_memmem(const void *h, size_t hl, const void *n, size_t nl){(void)h;(void)hl;(void)n;(void)nl;return 0;}

static struct buffered_socket BS;
#define L0 2
#define L1 2
void harness(void)
{
	struct buffered_socket *bs = &BS;
	size_t pend = nondet_size();
	__CPROVER_assume(pend <= CONFIG_MAX_WRITE_BUFFER_SIZE);
	bs->to_write = pend;
	for (size_t i = 0; i < CONFIG_MAX_WRITE_BUFFER_SIZE; i++) bs->write_buffer[i] = nondet_u8();
	uint8_t f0[L0], f1[L1]; size_t l0 = nondet_size(), l1 = nondet_size();
	__CPROVER_assume(l0 <= L0 && l1 <= L1);
	for (int i = 0; i < L0; i++) f0[i] = nondet_u8();
	for (int i = 0; i < L1; i++) f1[i] = nondet_u8();
	TRACK = nondet_size(); __CPROVER_assume(TRACK < pend + l0 + l1);
	uint8_t want = TRACK < pend ? bs->write_buffer[TRACK] : (TRACK < pend + l0 ? f0[TRACK - pend] : f1[TRACK - pend - l0]);
	struct socket_io_vector iov[2] = {{f0, l0}, {f1, l1}};
	int r = buffered_socket_writev(bs, iov, 2);
	if (r == 0) {
		assert(kpos + bs->to_write == pend + l0 + l1);
		uint8_t got = TRACK < kpos ? kbyte : bs->write_buffer[TRACK - kpos];
		assert(got == want);
	} else if (sock_errno != EPIPE) {
		/* refused: nothing of the new frame may have been sent or queued */
		assert(kpos + bs->to_write <= pend);
	}
#ifdef WITNESS
	assert(0);
#endif
}
