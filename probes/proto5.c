#include <assert.h>
#include <stdbool.h>
#include <stdint.h>
#include <stdlib.h>
#include <string.h>
#include "peer.h"
#include "element.h"
#include "fetch.h"
#include "table.h"
#include "router.h"
#include "parse.h"
#include "json/cJSON.h"
#include "alloc.h"
int nondet_int(void);
void log_err(const char *f, ...){(void)f;} void log_warn(const char *f, ...){(void)f;} void log_info(const char *f, ...){(void)f;}
void log_peer_err(const struct peer *p, const char *fmt, ...){(void)p;(void)fmt;}
void log_peer_info(const struct peer *p, const char *fmt, ...){(void)p;(void)fmt;}
int cjet_timer_init(struct cjet_timer *t, struct eventloop *l){(void)t;(void)l;return 0;} void cjet_timer_destroy(struct cjet_timer *t){(void)t;}
int model_alloc_fails(void){ return 0; }
extern cJSON *model_last_printed;
#define MAXLOG 8
struct sent { const struct peer *to; int is_event; char event; char path; int value; };
static struct sent LOG[MAXLOG]; static int nlog;
static int failing_slot = -1; static int sends;
static int send_message(const struct peer *p, char *rendered, size_t len)
{
	(void)rendered; (void)len;
	int me = sends++;
	if (me == failing_slot) return -1;
	assert(nlog < MAXLOG);
	cJSON *m = model_last_printed;
	LOG[nlog].to = p;
	cJSON *params = cJSON_GetObjectItem(m, "params");
	cJSON *ev = params ? cJSON_GetObjectItem(params, "event") : 0;
	LOG[nlog].is_event = ev != 0;
	if (ev) { LOG[nlog].event = ev->valuestring[0]; LOG[nlog].path = cJSON_GetObjectItem(params,"path")->valuestring[0]; cJSON *v=cJSON_GetObjectItem(params,"value"); LOG[nlog].value = v? v->valueint : -1; }
	nlog++;
	return 0;
}
static void close_peer(struct peer *p){(void)p;}
static cJSON *mkreq(const char *method, int id, cJSON *params)
{
	cJSON *r = cJSON_CreateObject();
	cJSON_AddItemToObject(r, "id", cJSON_CreateNumber(id));
	cJSON_AddItemToObject(r, "method", cJSON_CreateString(method));
	cJSON_AddItemToObject(r, "params", params);
	return r;
}
static cJSON *path_params(const char *path, int val){ cJSON *p = cJSON_CreateObject(); cJSON_AddItemToObject(p,"path",cJSON_CreateString(path)); if (val>=0) cJSON_AddItemToObject(p,"value",cJSON_CreateNumber(val)); return p; }
static cJSON *fetch_params(const char *id){ cJSON *fp = cJSON_CreateObject(); cJSON_AddItemToObject(fp, "id", cJSON_CreateString(id)); return fp; }
static struct peer A, B, C;
static void mkpeer(struct peer *p){ init_peer(p, true, 0); p->send_message = send_message; p->close = close_peer; p->fetch_groups=p->set_groups=p->call_groups=0; }
void harness(void)
{
	assert(element_hashtable_create() == 0);
	mkpeer(&A); mkpeer(&B); mkpeer(&C);
	/* B and C fetch all (concrete skeleton) */
	struct fetch *f = 0; cJSON *resp = 0; cJSON *freq;
	freq = mkreq("fetch", 1, fetch_params("fb")); assert(add_fetch_to_peer(&B, freq, &f, &resp) == 0); resp = add_fetch_to_states(&B, freq, f);
	freq = mkreq("fetch", 2, fetch_params("fc")); assert(add_fetch_to_peer(&C, freq, &f, &resp) == 0); resp = add_fetch_to_states(&C, freq, f);
	/* A adds "a" with symbolic value; one symbolic send fails */
	int v = nondet_int(); __CPROVER_assume(v >= 0 && v < 1000);
	sends = 0; nlog = 0;
	failing_slot = nondet_int(); __CPROVER_assume(failing_slot >= -1 && failing_slot < 4);
	resp = add_element_to_peer(&A, mkreq("add", 3, path_params("a", v)));
	int ok = resp && cJSON_GetObjectItem(resp, "result");
	int b_saw = 0, c_saw = 0;
	for (int i = 0; i < nlog; i++) if (LOG[i].is_event && LOG[i].event == 'a') { if (LOG[i].to == &B) b_saw++; if (LOG[i].to == &C) c_saw++; }
	if (failing_slot < 0) { __CPROVER_assert(ok && b_saw == 1 && c_saw == 1, "C01.add_reaches_every_subscriber_once"); }
	/* C11: a failing subscriber must not starve the other one, and nobody may have seen an element that does not exist */
	if (!ok) __CPROVER_assert(b_saw == 0 && c_saw == 0, "C01.no_add_event_for_refused_element");
	if (failing_slot == 0) __CPROVER_assert(c_saw == 1, "C11.healthy_subscriber_still_notified");
#ifdef WITNESS
	assert(0);
#endif
}
